#!/bin/bash
# tools/seedcheck.sh <seed-dir> <prop> [more props...]
# <seed-dir> holds patch.diff + demo_test.go (+ README.md). Confirms in a scratch
# worktree of /repo that the patch applies, compiles, passes the unedited suite,
# that the demonstration fails with it and passes without it (DEMO_DIR = package
# directory relative to pkg/go, default guessed from the demo's package clause),
# then points the quick checks at the patched worktree.
export GOFLAGS=-mod=mod GOPROXY=off GOSUMDB=off GOTOOLCHAIN=local
D=$(readlink -f $1); shift
ROOT=$(dirname $(dirname $(readlink -f $0)))
WT=$(mktemp -d /tmp/seedwt-XXXX); rmdir $WT
OUT=$(mktemp -d /tmp/seedout-XXXX)
git -C /repo worktree add --detach $WT HEAD >/dev/null 2>&1 || exit 2
trap "git -C /repo worktree remove --force $WT >/dev/null 2>&1; rm -rf $WT $OUT" EXIT
demo=$(ls $D/demo*.go 2>/dev/null | head -1)
pkgdir=${DEMO_DIR:-}
if [ -z "$pkgdir" ] && [ -n "$demo" ]; then
  pk=$(grep -m1 '^package ' $demo | awk '{print $2}' | sed 's/_test$//')
  case $pk in graph) pkgdir=graph;; transformer) pkgdir=transformer;; utils) pkgdir=utils;; validation) pkgdir=validation;; parser) pkgdir=gen;; *) pkgdir=transformer;; esac
fi
flags=${DEMO_FLAGS:-}
rundemo() { ( cd $WT/pkg/go && cp $demo $pkgdir/zz_seed_demo_test.go && go test -vet=off -count=1 $flags -run "${DEMO_RUN:-.}" ./$pkgdir/ >$OUT/demo.log 2>&1; rc=$?; rm -f $pkgdir/zz_seed_demo_test.go; exit $rc ); }
# SKIP_CONFIRM=1: the demonstration and the suite were confirmed by an earlier
# run (meta.json says so); only re-apply, compile and run the checks
if [ -n "$demo" ] && [ -z "$SKIP_CONFIRM" ]; then
  if rundemo; then echo "demo without patch: PASS (ok)"; else echo "demo without patch: FAIL (unexpected)"; tail -15 $OUT/demo.log; fi
fi
git -C $WT apply $D/patch.diff || { echo "patch does not apply"; exit 2; }
( cd $WT/pkg/go && go build ./... ) || { echo "does not compile"; exit 2; }
if [ -n "$SKIP_CONFIRM" ]; then echo "confirmation skipped (confirmed earlier)";
elif ( cd $WT/pkg/go && go test -vet=off -count=1 ./... >$OUT/suite.log 2>&1 ); then echo "suite with patch: PASSES"; else echo "suite with patch: FAILS"; grep -m5 "FAIL\|---" $OUT/suite.log; fi
if [ -n "$demo" ] && [ -z "$SKIP_CONFIRM" ]; then
  if rundemo; then echo "demo with patch: PASS (unexpected)"; else echo "demo with patch: FAIL (ok)"; grep -m3 -- "--- FAIL\|DATA RACE\|panic" $OUT/demo.log; fi
fi
for prop in "$@"; do
  VERIF_REPO=$WT VERIF_OUT=$OUT $ROOT/check $prop ${TIER:-quick} >$OUT/check.log 2>&1; rc=$?
  echo "check $prop: exit $rc $(grep -c '^VIOLATION' $OUT/check.log) violation lines; $(grep -E '^\s+C[0-9]+/' $OUT/check.log | tr -s ' ' | tr '\n' ';' | cut -c1-260)"
  [ $rc = 2 ] && tail -20 $OUT/check.log
  if [ -n "$SHOWREPLAY" ] && [ $rc = 1 ]; then f=$(grep -m1 '^VIOLATION' $OUT/check.log | sed 's/.*replay=//'); python3 -c "
import json,sys
v=json.load(open('$f')); print(v['class'],'|',v['sched_name'],'| minimised',v.get('minimised')); print(v['detail'][:600]); print(v.get('describe','')[:1500])"; fi
done
