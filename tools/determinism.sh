#!/bin/bash
# Determinism proof of the simulator (DESIGN.md §5): every engine, N workloads,
# each executed in several fresh worker processes with different shardings
# (1, 4, 16 workers) and GOMAXPROCS 1, 4, 16, plain and (for puresim) -race;
# the per-run hashes (every fingerprint, draw count, step count and violation
# of every simulated run of the workload) must be identical everywhere.
# usage: tools/determinism.sh [N] [SEED]   -> prints a table, exit 1 on any divergence
cd "$(dirname "$0")/.."
export GOFLAGS=-mod=mod GOPROXY=off GOSUMDB=off GOTOOLCHAIN=local
N=${1:-400}; SEED=${2:-7}
if [ ! -x bin/driver ] || [ ! -x bin/instrument ]; then
  mkdir -p bin; ( cd tools && go build -o ../bin/instrument ./instrument && go build -o ../bin/driver ./driver ) || exit 2
fi
S=$(VERIF_KEEP=1 ./bin/driver prepare | tail -1)
[ -d "$S" ] || { echo "prepare failed"; exit 2; }
( cd $S/worker && go build -trimpath -race -tags safe -o $S/bin/worker-race . ) || exit 2
grep -rn '\.Range(\|reflect\.MapIter\|MapRange(' $S/repo/pkg/go --include=*.go | grep -v _test | head
fail=0
runcfg() { # engine prop bin gmp nshards tag n
  local engine=$1 prop=$2 bin=$3 gmp=$4 ns=$5 tag=$6 n=$7
  for ((sh=0; sh<ns; sh++)); do
    VERIF_GOMAXPROCS=$gmp GORACE="log_path=$S/rl-$tag-$sh halt_on_error=0 exitcode=0" $S/bin/$bin run -engine $engine -prop $prop -seed $SEED -n $n -shard $sh -nshards $ns -maxsecs 3000 -trace -out $S/det-$tag-$sh.json 2>/dev/null &
    if (( (sh+1) % 16 == 0 )); then wait; fi
  done
  wait
  python3 - "$S" "$tag" "$ns" <<'PY'
import json,sys
S,tag,ns=sys.argv[1],sys.argv[2],int(sys.argv[3])
h={}
for sh in range(ns):
    h.update(json.load(open(f"{S}/det-{tag}-{sh}.json")).get("run_hashes") or {})
json.dump(h,open(f"{S}/hash-{tag}.json","w"),sort_keys=True)
PY
}
for spec in "wgsim C06" "plainsim C17" "mergesim C12" "rendersim C14" "puresim C13"; do
  set -- $spec; engine=$1; prop=$2
  # ENGINES="mergesim puresim": only these
  if [ -n "$ENGINES" ] && ! echo " $ENGINES " | grep -q " $engine "; then continue; fi
  n=$N; [ $engine = puresim ] && n=$((N/2))
  runcfg $engine $prop worker 1 1 $engine-a $n
  runcfg $engine $prop worker 4 4 $engine-b $n
  runcfg $engine $prop worker 16 16 $engine-c $n
  runcfg $engine $prop worker 1 7 $engine-d $n
  cfgs="a b c d"
  if [ $engine = puresim ]; then
    runcfg $engine $prop worker-race 1 8 $engine-e $((n/4))
    runcfg $engine $prop worker-race 16 3 $engine-f $((n/4))
  fi
  python3 - "$S" "$engine" <<'PY' || fail=1
import json,sys,glob
S,e=sys.argv[1],sys.argv[2]
base=json.load(open(f"{S}/hash-{e}-a.json"))
bad=0
for t in "bcd":
    o=json.load(open(f"{S}/hash-{e}-{t}.json"))
    d=[k for k in base if o.get(k)!=base[k]]
    print(f"{e}: config {t} vs a: {len(base)} workloads, {len(d)} divergent {d[:5]}")
    bad+=len(d)
try:
    r1=json.load(open(f"{S}/hash-{e}-e.json")); r2=json.load(open(f"{S}/hash-{e}-f.json"))
    d=[k for k in r1 if r2.get(k)!=r1[k]]
    print(f"{e}: race build, 8 procs GOMAXPROCS=1 vs 3 procs GOMAXPROCS=16: {len(r1)} workloads, {len(d)} divergent {d[:5]}")
    bad+=len(d)
    d=[k for k in r1 if base.get(k)!=r1[k]]
    print(f"{e}: race build vs plain build: {len(r1)} workloads, {len(d)} divergent {d[:5]}")
    bad+=len(d)
except FileNotFoundError:
    pass
sys.exit(1 if bad else 0)
PY
done
rm -rf $S
[ $fail = 0 ] && echo "DETERMINISM OK" || { echo "DETERMINISM FAILED"; exit 1; }
