// instrument splices the simulator's seams into a scratch copy of
// openfga/language (and the gonum graph packages it uses). It never touches
// /repo: the driver hands it the scratch module directory.
//
// Rewrites (all type directed, see DESIGN.md §3):
//  1. for k, v := range <map>      -> range simrt.RangeMap(<map>, site)
//  2. ulid.Make()                  -> simrt.MakeULID(site)
//  3. simrt.Yield(site) as first statement of every function body and loop body
//  4. (*sync.Once).Do / (*sync.Mutex).Lock ... -> cooperative simrt forms
//  5. everything it cannot put behind a seam is reported (uncontrolled).
package main

import (
	"bytes"
	"encoding/json"
	"flag"
	"fmt"
	"go/ast"
	"go/constant"
	"go/printer"
	"go/token"
	"go/types"
	"os"
	"path/filepath"
	"sort"
	"strconv"
	"strings"

	"golang.org/x/tools/go/ast/astutil"
	"golang.org/x/tools/go/packages"
)

const simrtPath = "verifsim/simrt"

type report struct {
	Files          int            `json:"files"`
	MapRangeSites  []string       `json:"map_range_sites"`
	MapRangeAny    []string       `json:"map_range_uncontrolled_sites"`
	ULIDSites      []string       `json:"ulid_sites"`
	YieldSites     int            `json:"yield_sites"`
	SyncSites      []string       `json:"sync_sites"`
	HashSites      []string       `json:"hash_sites"`
	Uncontrolled   []string       `json:"uncontrolled_sources"`
	PackagesFull   []string       `json:"packages_full"`
	PackagesMapped []string       `json:"packages_maponly"`
	Counts         map[string]int `json:"counts"`
}

var (
	flagDir        = flag.String("dir", ".", "module directory to load from")
	flagFull       = flag.String("full", "github.com/openfga/language/pkg/go", "import path prefix that gets every rewrite")
	flagMapOnly    = flag.String("maponly", "gonum.org/v1/gonum/graph,github.com/antlr4-go/antlr/v4", "comma separated import path prefixes that get the map-range rewrite only")
	flagTags       = flag.String("tags", "safe", "build tags")
	flagReport     = flag.String("report", "", "write JSON report here")
	flagNoYields   = flag.Bool("noyields", false, "do not insert yield points")
	flagStmtYields = flag.Bool("stmtyields", true, "yield before every statement of the hand-written packages")
	flagTests      = flag.Bool("tests", false, "also instrument _test.go files of the full packages (never needed; off)")
)

func main() {
	flag.Parse()
	cfg := &packages.Config{
		Mode: packages.NeedName | packages.NeedFiles | packages.NeedCompiledGoFiles | packages.NeedSyntax |
			packages.NeedTypes | packages.NeedTypesInfo | packages.NeedImports | packages.NeedDeps | packages.NeedModule,
		Dir:        *flagDir,
		BuildFlags: []string{"-tags=" + *flagTags, "-mod=mod"},
		Tests:      *flagTests,
		Env:        append(os.Environ(), "GOFLAGS=-mod=mod", "GOPROXY=off", "GOSUMDB=off", "GOTOOLCHAIN=local"),
	}
	pkgs, err := packages.Load(cfg, "./...")
	if err != nil {
		fmt.Fprintln(os.Stderr, "instrument: load:", err)
		os.Exit(2)
	}
	rep := &report{Counts: map[string]int{}}
	bad := false
	seen := map[string]bool{}
	var all []*packages.Package
	packages.Visit(pkgs, nil, func(p *packages.Package) {
		if seen[p.PkgPath] {
			return
		}
		seen[p.PkgPath] = true
		all = append(all, p)
	})
	sort.Slice(all, func(i, j int) bool { return all[i].PkgPath < all[j].PkgPath })
	for _, p := range all {
		full := strings.HasPrefix(p.PkgPath, *flagFull)
		mapOnly := false
		for _, pre := range strings.Split(*flagMapOnly, ",") {
			if pre != "" && strings.HasPrefix(p.PkgPath, pre) {
				mapOnly = true
			}
		}
		if !full && !mapOnly {
			continue
		}
		if len(p.Errors) > 0 {
			for _, e := range p.Errors {
				fmt.Fprintln(os.Stderr, "instrument:", p.PkgPath, e)
			}
			bad = true
			continue
		}
		if full {
			rep.PackagesFull = append(rep.PackagesFull, p.PkgPath)
		} else {
			rep.PackagesMapped = append(rep.PackagesMapped, p.PkgPath)
		}
		root := ""
		if p.Module != nil {
			root = p.Module.Dir
		}
		for _, f := range p.Syntax {
			fname := p.Fset.File(f.Pos()).Name()
			if strings.HasSuffix(fname, "_test.go") && !*flagTests {
				continue
			}
			if strings.Contains(filepath.Base(fname), "zz_verif") {
				continue
			}
			rel := fname
			if root != "" {
				if r, err := filepath.Rel(root, fname); err == nil {
					rel = r
				}
			}
			if !full {
				if strings.Contains(p.PkgPath, "antlr") {
					rel = "antlr/" + rel
				} else {
					rel = "gonum/" + rel
				}
			}
			in := &instr{pkg: p, file: f, rel: rel, rep: rep, full: full}
			changed := in.run()
			if !changed {
				continue
			}
			astutil.AddImport(p.Fset, f, simrtPath)
			if in.timers {
				// the simulated timers of this file need the timer daemon
				f.Decls = append(f.Decls, &ast.FuncDecl{Name: ast.NewIdent("init"), Type: &ast.FuncType{Params: &ast.FieldList{}},
					Body: &ast.BlockStmt{List: []ast.Stmt{&ast.ExprStmt{X: simCall("EnableTimerDaemon")}}}})
			}
			// drop imports that became unused through the rewrites
			for _, imp := range []string{"github.com/oklog/ulid/v2", "maps", "golang.org/x/exp/maps", "os", "time", "runtime", "context", "sync"} {
				if !usesImport(p, f, imp) {
					astutil.DeleteImport(p.Fset, f, imp)
				}
			}
			pruneComments(f)
			var buf bytes.Buffer
			if err := (&printer.Config{Mode: printer.UseSpaces | printer.TabIndent, Tabwidth: 8}).Fprint(&buf, p.Fset, f); err != nil {
				fmt.Fprintln(os.Stderr, "instrument: print", fname, err)
				os.Exit(2)
			}
			if err := os.WriteFile(fname, buf.Bytes(), 0o644); err != nil {
				fmt.Fprintln(os.Stderr, "instrument: write", fname, err)
				os.Exit(2)
			}
			rep.Files++
		}
	}
	if bad {
		os.Exit(2)
	}
	sort.Strings(rep.MapRangeSites)
	sort.Strings(rep.ULIDSites)
	sort.Strings(rep.Uncontrolled)
	rep.Counts["map_range"] = len(rep.MapRangeSites)
	rep.Counts["map_range_uncontrolled"] = len(rep.MapRangeAny)
	rep.Counts["ulid"] = len(rep.ULIDSites)
	rep.Counts["yield"] = rep.YieldSites
	rep.Counts["sync"] = len(rep.SyncSites)
	rep.Counts["hash"] = len(rep.HashSites)
	rep.Counts["uncontrolled"] = len(rep.Uncontrolled)
	if *flagReport != "" {
		b, _ := json.MarshalIndent(rep, "", " ")
		if err := os.WriteFile(*flagReport, b, 0o644); err != nil {
			fmt.Fprintln(os.Stderr, "instrument:", err)
			os.Exit(2)
		}
	}
	fmt.Printf("instrument: %d files, %d map ranges (%d uncontrolled), %d ulid, %d yields, %d sync, %d uncontrolled sources\n",
		rep.Files, len(rep.MapRangeSites), len(rep.MapRangeAny), len(rep.ULIDSites), rep.YieldSites, len(rep.SyncSites), len(rep.Uncontrolled))
}

// usesImport reports whether the (rewritten) file still refers to the package
// imported from path. astutil.UsesImport guesses the package name from the last
// path element ("v2" for github.com/oklog/ulid/v2), so the references are
// resolved through the type information instead: every surviving qualified
// identifier of the original file is still in Uses, and the nodes the
// instrumenter creates only ever refer to simrt.
func usesImport(p *packages.Package, f *ast.File, path string) bool {
	used := false
	ast.Inspect(f, func(n ast.Node) bool {
		if sel, ok := n.(*ast.SelectorExpr); ok {
			if id, ok := sel.X.(*ast.Ident); ok {
				if pn, ok := p.TypesInfo.Uses[id].(*types.PkgName); ok && pn.Imported().Path() == path {
					used = true
				}
			}
		}
		return !used
	})
	return used
}

// pruneComments keeps only comments that cannot be displaced by inserted
// statements: everything before the package clause (build constraints) and
// the doc comments of top level declarations (//go: directives live there).
func pruneComments(f *ast.File) {
	keep := map[*ast.CommentGroup]bool{}
	for _, d := range f.Decls {
		switch d := d.(type) {
		case *ast.FuncDecl:
			if d.Doc != nil {
				keep[d.Doc] = true
			}
		case *ast.GenDecl:
			if d.Doc != nil {
				keep[d.Doc] = true
			}
		}
	}
	var out []*ast.CommentGroup
	for _, cg := range f.Comments {
		if cg.End() < f.Package || keep[cg] {
			out = append(out, cg)
		}
	}
	f.Comments = out
	// detach every other doc/comment pointer so the printer does not try to
	// place them
	ast.Inspect(f, func(n ast.Node) bool {
		switch n := n.(type) {
		case *ast.Field:
			n.Doc, n.Comment = nil, nil
		case *ast.ValueSpec:
			n.Doc, n.Comment = nil, nil
		case *ast.TypeSpec:
			n.Doc, n.Comment = nil, nil
		case *ast.ImportSpec:
			n.Doc, n.Comment = nil, nil
		}
		return true
	})
}

type instr struct {
	pkg     *packages.Package
	file    *ast.File
	rel     string
	rep     *report
	full    bool
	changed bool
	fn      []string          // enclosing function name stack
	comm    map[ast.Node]bool // communication clauses of select statements (and their receive expressions): left to the select
	nsel    int
	timers  bool // a timer construct was rewritten in this file
	preFn   astutil.ApplyFunc
	inConst int // nesting depth of constant declarations (their initialisers must stay constant)
}

func (in *instr) site(kind string, pos token.Pos, extra string) string {
	p := in.pkg.Fset.Position(pos)
	fn := "init"
	if len(in.fn) > 0 {
		fn = in.fn[len(in.fn)-1]
	}
	s := kind + ":" + filepath.ToSlash(in.rel) + ":" + strconv.Itoa(p.Line) + ":" + fn
	if extra != "" {
		s += ":" + extra
	}
	return s
}

func (in *instr) exprString(e ast.Expr) string {
	var buf bytes.Buffer
	_ = printer.Fprint(&buf, in.pkg.Fset, e)
	s := buf.String()
	if len(s) > 60 {
		s = s[:60]
	}
	return strings.Join(strings.Fields(s), " ")
}

func simCall(name string, args ...ast.Expr) *ast.CallExpr {
	return &ast.CallExpr{Fun: &ast.SelectorExpr{X: ast.NewIdent("simrt"), Sel: ast.NewIdent(name)}, Args: args}
}

func strLit(s string) ast.Expr {
	return &ast.BasicLit{Kind: token.STRING, Value: strconv.Quote(s)}
}

func isOrdered(t types.Type) bool {
	b, ok := t.Underlying().(*types.Basic)
	if !ok {
		return false
	}
	return b.Info()&types.IsOrdered != 0
}

func (in *instr) run() bool {
	info := in.pkg.TypesInfo
	// Pass 1: expression / statement rewrites with astutil.Apply (pre-order so
	// that site strings are computed from original positions).
	in.preFn = func(c *astutil.Cursor) bool {
		switch n := c.Node().(type) {
		case *ast.GenDecl:
			if n.Tok == token.CONST {
				in.inConst++
			}
		case *ast.IncDecStmt:
			if st := in.splitRMW(c, n.X, nil, n.Tok); st != nil {
				c.Replace(st)
			}
		case *ast.BasicLit:
			if n.Kind == token.INT {
				in.weakPrime(c, n)
			}
		case *ast.Ident:
			if _, isConst := info.Uses[n].(*types.Const); isConst {
				in.weakPrime(c, n)
			}
		case *ast.FuncDecl:
			name := n.Name.Name
			if n.Recv != nil && len(n.Recv.List) > 0 {
				name = recvName(n.Recv.List[0].Type) + "." + name
			}
			in.fn = append(in.fn, name)
		case *ast.RangeStmt:
			tv, ok := info.Types[n.X]
			if !ok {
				return true
			}
			mt, ok := tv.Type.Underlying().(*types.Map)
			if !ok {
				if _, isChan := tv.Type.Underlying().(*types.Chan); isChan && in.full {
					c.Replace(in.rewriteRangeChan(n))
					in.changed = true
				}
				return true
			}
			if n.Key == nil && n.Value == nil {
				return true // order is unobservable
			}
			site := in.site("map", n.Pos(), in.exprString(n.X))
			fn := "RangeMap"
			if !isOrdered(mt.Key()) {
				fn = "RangeMapAny"
				in.rep.MapRangeAny = append(in.rep.MapRangeAny, site)
				if n.Value == nil {
					// RangeMapAny is a Seq2; `for k := range seq2` is legal.
				}
			} else if n.Value == nil {
				fn = "RangeMapKeys"
			}
			in.rep.MapRangeSites = append(in.rep.MapRangeSites, site)
			n.X = simCall(fn, n.X, strLit(site))
			in.changed = true
		case *ast.CallExpr:
			in.rewriteCall(c, n)
		case *ast.GoStmt:
			if in.full {
				if blk := in.rewriteGo(n); blk != nil {
					in.rep.SyncSites = append(in.rep.SyncSites, in.site("go", n.Pos(), ""))
					c.Replace(blk)
					in.changed = true
				} else {
					in.rep.Uncontrolled = append(in.rep.Uncontrolled, in.site("go-statement", n.Pos(), ""))
				}
			}
		case *ast.SelectStmt:
			if in.full {
				_, userLabel := c.Parent().(*ast.LabeledStmt)
				if st := in.rewriteSelect(n, !userLabel); st != nil {
					c.Replace(st)
				}
			}
		case *ast.SendStmt:
			if in.full && !in.comm[n] {
				site := in.site("chan", n.Pos(), "send "+in.exprString(n.Chan))
				in.rep.SyncSites = append(in.rep.SyncSites, site)
				c.Replace(&ast.ExprStmt{X: simCall("ChanSend", n.Chan, n.Value, strLit(site))})
				in.changed = true
			}
		case *ast.AssignStmt:
			if n.Tok >= token.ADD_ASSIGN && n.Tok <= token.AND_NOT_ASSIGN && len(n.Lhs) == 1 && len(n.Rhs) == 1 {
				if st := in.splitRMW(c, n.Lhs[0], n.Rhs[0], n.Tok); st != nil {
					// the write is the original statement node, changed in place to
					// `X = t op (Y)`: the walk goes on into Y through it, so rewrites
					// inside Y land where they belong
					blk := st.(*ast.BlockStmt)
					w := blk.List[2].(*ast.AssignStmt)
					n.Tok, n.Rhs = token.ASSIGN, w.Rhs
					blk.List[2] = n
					c.Replace(blk)
					return true
				}
			}
			// v, ok := <-ch
			if in.full && !in.comm[n] && len(n.Lhs) == 2 && len(n.Rhs) == 1 {
				if u, ok := ast.Unparen(n.Rhs[0]).(*ast.UnaryExpr); ok && u.Op == token.ARROW {
					site := in.site("chan", u.Pos(), "recv "+in.exprString(u.X))
					in.rep.SyncSites = append(in.rep.SyncSites, site)
					n.Rhs[0] = simCall("ChanRecv2", u.X, strLit(site))
					in.changed = true
				}
			}
		case *ast.ValueSpec:
			if in.full && len(n.Names) == 2 && len(n.Values) == 1 {
				if u, ok := ast.Unparen(n.Values[0]).(*ast.UnaryExpr); ok && u.Op == token.ARROW {
					site := in.site("chan", u.Pos(), "recv "+in.exprString(u.X))
					in.rep.SyncSites = append(in.rep.SyncSites, site)
					n.Values[0] = simCall("ChanRecv2", u.X, strLit(site))
					in.changed = true
				}
			}
		case *ast.UnaryExpr:
			if n.Op == token.ARROW && in.full && !in.comm[n] {
				site := in.site("chan", n.Pos(), "recv "+in.exprString(n.X))
				in.rep.SyncSites = append(in.rep.SyncSites, site)
				c.Replace(simCall("ChanRecv", n.X, strLit(site)))
				in.changed = true
			}
		}
		return true
	}
	astutil.Apply(in.file, in.preFn, func(c *astutil.Cursor) bool {
		switch n := c.Node().(type) {
		case *ast.FuncDecl:
			in.fn = in.fn[:len(in.fn)-1]
		case *ast.GenDecl:
			if n.Tok == token.CONST {
				in.inConst--
			}
		}
		return true
	})

	// Pass 2: yield points (function entries and loop bodies), full packages only.
	if in.full && !*flagNoYields {
		in.fn = nil
		var walk func(n ast.Node) bool
		walk = func(n ast.Node) bool {
			switch n := n.(type) {
			case *ast.FuncDecl:
				if n.Body == nil {
					return false
				}
				if hasPragma(n.Doc, "go:nosplit") || hasPragma(n.Doc, "go:norace") {
					return false
				}
				name := n.Name.Name
				if n.Recv != nil && len(n.Recv.List) > 0 {
					name = recvName(n.Recv.List[0].Type) + "." + name
				}
				in.fn = append(in.fn, name)
				in.prependYield(n.Body, in.site("y", n.Body.Lbrace, "entry"))
				ast.Inspect(n.Body, walk)
				in.fn = in.fn[:len(in.fn)-1]
				return false
			case *ast.FuncLit:
				in.prependYield(n.Body, in.site("y", n.Body.Lbrace, "lit"))
			case *ast.ForStmt:
				in.prependYield(n.Body, in.site("y", n.Body.Lbrace, "for"))
			case *ast.RangeStmt:
				in.prependYield(n.Body, in.site("y", n.Body.Lbrace, "range"))
			}
			return true
		}
		ast.Inspect(in.file, walk)
		// statement granularity for the hand-written packages (not the
		// generated parser): a yield before every statement, so that a switch
		// between two consecutive statements of a straight-line block is a
		// schedule the simulator can produce
		if *flagStmtYields && !strings.HasSuffix(in.pkg.PkgPath, "/gen") {
			in.fn = nil
			interleave := func(list []ast.Stmt) []ast.Stmt {
				if len(list) == 0 {
					return list
				}
				out := make([]ast.Stmt, 0, 2*len(list))
				for i, st := range list {
					_, isLabel := st.(*ast.LabeledStmt)
					es, isExpr := st.(*ast.ExprStmt)
					prevYield := false
					if i > 0 {
						if pes, ok := list[i-1].(*ast.ExprStmt); ok && isYieldCall(pes) {
							prevYield = true
						}
					}
					if !isLabel && !prevYield && !(isExpr && isYieldCall(es)) {
						out = append(out, &ast.ExprStmt{X: simCall("Yield", strLit(in.site("s", st.Pos(), "")))})
						in.rep.YieldSites++
					}
					out = append(out, st)
				}
				in.changed = true
				return out
			}
			skip := map[*ast.BlockStmt]bool{} // bodies that hold case clauses, not statements
			ast.Inspect(in.file, func(n ast.Node) bool {
				switch n := n.(type) {
				case *ast.FuncDecl:
					if n.Body == nil || hasPragma(n.Doc, "go:nosplit") || hasPragma(n.Doc, "go:norace") {
						return false
					}
					name := n.Name.Name
					if n.Recv != nil && len(n.Recv.List) > 0 {
						name = recvName(n.Recv.List[0].Type) + "." + name
					}
					in.fn = []string{name}
				case *ast.SwitchStmt:
					skip[n.Body] = true
				case *ast.TypeSwitchStmt:
					skip[n.Body] = true
				case *ast.SelectStmt:
					skip[n.Body] = true
				case *ast.BlockStmt:
					if skip[n] {
						return true
					}
					n.List = interleave(n.List)
				case *ast.CaseClause:
					n.Body = interleave(n.Body)
				case *ast.CommClause:
					n.Body = interleave(n.Body)
				}
				return true
			})
		}
	}
	return in.changed
}

// splitRMW opens the window inside a read-modify-write statement on a variable
// other goroutines can reach (`b.n++`, `total += x` on a field or a package
// level variable): the statement becomes { t := X; yield; X = t op Y }, so that
// a switch between the read and the write - the classic lost update - is a
// schedule the simulator can produce. Only for operands that are plain
// selector chains or package-level identifiers (evaluating them twice is
// harmless) and only where a block may stand.
func (in *instr) splitRMW(c *astutil.Cursor, x, y ast.Expr, tok token.Token) ast.Stmt {
	if !in.full || *flagNoYields || c.Index() < 0 || strings.HasSuffix(in.pkg.PkgPath, "/gen") {
		return nil
	}
	info := in.pkg.TypesInfo
	var pure func(e ast.Expr, top bool) bool
	pure = func(e ast.Expr, top bool) bool {
		switch e := e.(type) {
		case *ast.Ident:
			v, ok := info.Uses[e].(*types.Var)
			if !ok {
				return false
			}
			if top { // a bare identifier: shared only if it is a package-level variable
				return v.Parent() == in.pkg.Types.Scope()
			}
			return true
		case *ast.SelectorExpr:
			return pure(e.X, false)
		case *ast.StarExpr:
			return pure(e.X, false)
		case *ast.ParenExpr:
			return pure(e.X, top)
		}
		return false
	}
	if !pure(x, true) {
		return nil
	}
	if tv, ok := info.Types[x]; !ok || tv.Type == nil {
		return nil
	}
	site := in.site("rmw", x.Pos(), in.exprString(x))
	in.rep.YieldSites++
	var op token.Token
	var rhs ast.Expr
	switch tok {
	case token.INC:
		op, rhs = token.ADD, &ast.BasicLit{Kind: token.INT, Value: "1"}
	case token.DEC:
		op, rhs = token.SUB, &ast.BasicLit{Kind: token.INT, Value: "1"}
	default:
		op = tok - (token.ADD_ASSIGN - token.ADD)
		rhs = &ast.ParenExpr{X: y}
	}
	t := ast.NewIdent("_verifRMW")
	in.changed = true
	return &ast.BlockStmt{List: []ast.Stmt{
		&ast.AssignStmt{Lhs: []ast.Expr{t}, Tok: token.DEFINE, Rhs: []ast.Expr{x}},
		&ast.ExprStmt{X: simCall("Yield", strLit(site))},
		&ast.AssignStmt{Lhs: []ast.Expr{x}, Tok: token.ASSIGN, Rhs: []ast.Expr{&ast.BinaryExpr{X: ast.NewIdent("_verifRMW"), Op: op, Y: rhs}}},
	}}
}

// weakPrime puts the multiplier of a hand-written FNV loop behind the weak-hash
// seam: an integer constant expression with the value of the 32- or 64-bit FNV
// prime, used inside a function body where a non-constant may stand.
func (in *instr) weakPrime(c *astutil.Cursor, e ast.Expr) {
	if !in.full || len(in.fn) == 0 || in.inConst > 0 {
		return
	}
	tv, ok := in.pkg.TypesInfo.Types[e]
	if !ok || tv.Value == nil || tv.Value.Kind() != constant.Int {
		return
	}
	v, exact := constant.Uint64Val(tv.Value)
	if !exact || (v != 16777619 && v != 1099511628211) {
		return
	}
	b, ok := tv.Type.Underlying().(*types.Basic)
	if !ok || b.Info()&types.IsInteger == 0 || b.Info()&types.IsUntyped != 0 {
		return
	}
	switch c.Parent().(type) {
	case *ast.BinaryExpr, *ast.AssignStmt, *ast.ParenExpr, *ast.CallExpr:
	default:
		return // array lengths, case labels, composite literal keys ...: left alone
	}
	if p, ok := c.Parent().(*ast.CallExpr); ok && p.Fun == e {
		return
	}
	name := "WeakPrime32"
	if v == 1099511628211 {
		name = "WeakPrime64"
	}
	site := in.site("hash", e.Pos(), "fnv-prime")
	in.rep.HashSites = append(in.rep.HashSites, site)
	var typ ast.Expr = ast.NewIdent(b.Name())
	if n, ok := tv.Type.(*types.Named); ok && n.Obj().Pkg() == in.pkg.Types {
		typ = ast.NewIdent(n.Obj().Name())
	}
	c.Replace(&ast.CallExpr{Fun: typ, Args: []ast.Expr{simCall(name, strLit(site))}})
	in.changed = true
}

func isYieldCall(es *ast.ExprStmt) bool {
	c, ok := es.X.(*ast.CallExpr)
	if !ok {
		return false
	}
	sel, ok := c.Fun.(*ast.SelectorExpr)
	if !ok {
		return false
	}
	x, ok := sel.X.(*ast.Ident)
	return ok && x.Name == "simrt" && sel.Sel.Name == "Yield"
}

func hasPragma(cg *ast.CommentGroup, p string) bool {
	if cg == nil {
		return false
	}
	for _, c := range cg.List {
		if strings.HasPrefix(c.Text, "//"+p) {
			return true
		}
	}
	return false
}

func recvName(e ast.Expr) string {
	switch t := e.(type) {
	case *ast.StarExpr:
		return recvName(t.X)
	case *ast.Ident:
		return t.Name
	case *ast.IndexExpr:
		return recvName(t.X)
	case *ast.IndexListExpr:
		return recvName(t.X)
	}
	return "?"
}

func (in *instr) prependYield(body *ast.BlockStmt, site string) {
	if body == nil {
		return
	}
	y := &ast.ExprStmt{X: simCall("Yield", strLit(site))}
	body.List = append([]ast.Stmt{y}, body.List...)
	in.rep.YieldSites++
	in.changed = true
}

// calleeOf returns the *types.Func a call resolves to (functions and methods).
func calleeOf(info *types.Info, call *ast.CallExpr) *types.Func {
	var id *ast.Ident
	fun := ast.Unparen(call.Fun)
	switch f := fun.(type) { // explicit instantiation of a generic function
	case *ast.IndexExpr:
		fun = ast.Unparen(f.X)
	case *ast.IndexListExpr:
		fun = ast.Unparen(f.X)
	}
	switch f := fun.(type) {
	case *ast.Ident:
		id = f
	case *ast.SelectorExpr:
		id = f.Sel
	default:
		return nil
	}
	if obj, ok := info.Uses[id].(*types.Func); ok {
		return obj
	}
	return nil
}

func (in *instr) rewriteCall(c *astutil.Cursor, call *ast.CallExpr) {
	info := in.pkg.TypesInfo
	if id, ok := ast.Unparen(call.Fun).(*ast.Ident); ok && in.full && id.Name == "close" && len(call.Args) == 1 {
		if _, isBuiltin := info.Uses[id].(*types.Builtin); isBuiltin {
			in.rep.SyncSites = append(in.rep.SyncSites, in.site("chan", call.Pos(), "close"))
			call.Fun = &ast.SelectorExpr{X: ast.NewIdent("simrt"), Sel: ast.NewIdent("ChanClose")}
			in.changed = true
			return
		}
	}
	fn := calleeOf(info, call)
	if fn == nil && in.full {
		// a call of a context.CancelFunc / CancelCauseFunc value closes a channel
		// tasks may be parked on
		if t := info.TypeOf(call.Fun); t != nil {
			if nt, ok := t.(*types.Named); ok && nt.Obj().Pkg() != nil && nt.Obj().Pkg().Path() == "context" {
				switch nt.Obj().Name() {
				case "CancelFunc":
					call.Args = []ast.Expr{call.Fun}
					call.Fun = &ast.SelectorExpr{X: ast.NewIdent("simrt"), Sel: ast.NewIdent("CallCancel")}
					in.changed = true
				case "CancelCauseFunc":
					call.Args = append([]ast.Expr{call.Fun}, call.Args...)
					call.Fun = &ast.SelectorExpr{X: ast.NewIdent("simrt"), Sel: ast.NewIdent("CallCancelCause")}
					in.changed = true
				}
			}
		}
		return
	}
	if fn == nil || fn.Pkg() == nil {
		return
	}
	full := fn.FullName()
	if in.full && strings.HasPrefix(fn.Pkg().Path(), "hash") {
		// non-cryptographic hashes: results go through the weak-hash seam
		weak := ""
		if sig, ok := fn.Type().(*types.Signature); ok && sig.Results().Len() == 1 {
			if b, ok := sig.Results().At(0).Type().Underlying().(*types.Basic); ok {
				switch {
				case b.Kind() == types.Uint32 && (fn.Name() == "Sum32" || fn.Name() == "ChecksumIEEE" || fn.Name() == "Checksum" || fn.Name() == "Update"):
					weak = "Weak32"
				case b.Kind() == types.Uint64 && (fn.Name() == "Sum64" || fn.Name() == "Checksum" || fn.Name() == "Update" || fn.Name() == "String" || fn.Name() == "Bytes" || fn.Name() == "Comparable"):
					weak = "Weak64"
				}
			}
		}
		if weak != "" {
			site := in.site("hash", call.Pos(), full)
			in.rep.HashSites = append(in.rep.HashSites, site)
			c.Replace(simCall(weak, call, strLit(site)))
			in.changed = true
		}
		return
	}
	switch full {
	case "github.com/oklog/ulid/v2.Make":
		site := in.site("ulid", call.Pos(), "")
		in.rep.ULIDSites = append(in.rep.ULIDSites, site)
		call.Fun = &ast.SelectorExpr{X: ast.NewIdent("simrt"), Sel: ast.NewIdent("MakeULID")}
		call.Args = []ast.Expr{strLit(site)}
		in.changed = true
		return
	case "time.Now":
		if in.full {
			site := in.site("clock", call.Pos(), "")
			in.rep.ULIDSites = append(in.rep.ULIDSites, site)
			call.Fun = &ast.SelectorExpr{X: ast.NewIdent("simrt"), Sel: ast.NewIdent("Now")}
			call.Args = []ast.Expr{strLit(site)}
			in.changed = true
		}
		return
	case "runtime.GOMAXPROCS", "runtime.NumCPU":
		if in.full {
			site := in.site("env", call.Pos(), "")
			in.rep.ULIDSites = append(in.rep.ULIDSites, site)
			call.Fun = &ast.SelectorExpr{X: ast.NewIdent("simrt"), Sel: ast.NewIdent(fn.Name())}
			call.Args = append(call.Args, strLit(site))
			in.changed = true
		}
		return
	case "os.Getenv", "os.LookupEnv":
		if in.full {
			site := in.site("env", call.Pos(), "")
			in.rep.ULIDSites = append(in.rep.ULIDSites, site)
			call.Fun = &ast.SelectorExpr{X: ast.NewIdent("simrt"), Sel: ast.NewIdent(fn.Name())}
			call.Args = append(call.Args, strLit(site))
			in.changed = true
		}
		return
	case "time.Since", "time.Until", "time.Sleep", "time.After", "time.Tick", "time.NewTimer", "time.NewTicker", "time.AfterFunc",
		"context.WithTimeout", "context.WithDeadline", "runtime.Gosched":
		if in.full {
			name := fn.Name()
			if fn.Pkg().Path() == "context" {
				name = "Context" + name
			}
			site := in.site("clock", call.Pos(), name)
			in.rep.ULIDSites = append(in.rep.ULIDSites, site)
			call.Fun = &ast.SelectorExpr{X: ast.NewIdent("simrt"), Sel: ast.NewIdent(name)}
			call.Args = append(call.Args, strLit(site))
			in.changed = true
			if name != "Since" && name != "Until" && name != "Gosched" && name != "Sleep" {
				in.timers = true
			}
		}
		return
	case "runtime.SetFinalizer":
		if in.full {
			site := in.site("gc", call.Pos(), "SetFinalizer")
			in.rep.SyncSites = append(in.rep.SyncSites, site)
			call.Fun = &ast.SelectorExpr{X: ast.NewIdent("simrt"), Sel: ast.NewIdent("SetFinalizer")}
			call.Args = append(call.Args, strLit(site))
			in.changed = true
		}
		return
	case "sync.OnceFunc", "sync.OnceValue", "sync.OnceValues":
		if in.full {
			site := in.site("sync", call.Pos(), fn.Name())
			in.rep.SyncSites = append(in.rep.SyncSites, site)
			// explicit instantiations (sync.OnceValue[T]) keep their index expression
			switch f := ast.Unparen(call.Fun).(type) {
			case *ast.IndexExpr:
				f.X = &ast.SelectorExpr{X: ast.NewIdent("simrt"), Sel: ast.NewIdent(fn.Name())}
			case *ast.IndexListExpr:
				f.X = &ast.SelectorExpr{X: ast.NewIdent("simrt"), Sel: ast.NewIdent(fn.Name())}
			default:
				call.Fun = &ast.SelectorExpr{X: ast.NewIdent("simrt"), Sel: ast.NewIdent(fn.Name())}
			}
			call.Args = append(call.Args, strLit(site))
			in.changed = true
		}
		return
	case "github.com/oklog/ulid/v2.Now", "github.com/oklog/ulid/v2.Timestamp", "github.com/oklog/ulid/v2.DefaultEntropy",
		"github.com/oklog/ulid/v2.MustNew", "github.com/oklog/ulid/v2.New",
		"os.Getpid", "os.Hostname", "os.Environ", "runtime.NumGoroutine":
		if in.full {
			in.rep.Uncontrolled = append(in.rep.Uncontrolled, in.site("call "+full, call.Pos(), ""))
		}
		return
	}
	// maps.Keys / maps.Values / maps.All (std, iterators) and x/exp/maps.Keys /
	// Values (slices): map iteration order in another guise
	if (fn.Pkg().Path() == "maps" || fn.Pkg().Path() == "golang.org/x/exp/maps") && len(call.Args) == 1 {
		if tv, ok := info.Types[call.Args[0]]; ok {
			if mt, ok := tv.Type.Underlying().(*types.Map); ok {
				name := ""
				std := fn.Pkg().Path() == "maps"
				switch fn.Name() {
				case "Keys":
					name = map[bool]string{true: "RangeMapKeys", false: "MapKeysSlice"}[std]
				case "Values":
					name = map[bool]string{true: "RangeMapValues", false: "MapValuesSlice"}[std]
				case "All":
					if std {
						name = "RangeMap"
					}
				}
				if name != "" {
					site := in.site("map", call.Pos(), fn.Pkg().Name()+"."+fn.Name()+" "+in.exprString(call.Args[0]))
					if isOrdered(mt.Key()) {
						in.rep.MapRangeSites = append(in.rep.MapRangeSites, site)
						call.Fun = &ast.SelectorExpr{X: ast.NewIdent("simrt"), Sel: ast.NewIdent(name)}
						call.Args = append(call.Args, strLit(site))
						in.changed = true
					} else if in.full {
						in.rep.MapRangeAny = append(in.rep.MapRangeAny, site)
						in.rep.Uncontrolled = append(in.rep.Uncontrolled, site)
					}
					return
				}
			}
		}
	}
	if in.full && (fn.Pkg().Path() == "math/rand" || fn.Pkg().Path() == "math/rand/v2" || fn.Pkg().Path() == "crypto/rand") {
		in.rep.Uncontrolled = append(in.rep.Uncontrolled, in.site("call "+full, call.Pos(), ""))
		return
	}
	if in.full && fn.Pkg().Path() == "reflect" && (fn.Name() == "MapRange" || fn.Name() == "MapKeys") {
		in.rep.Uncontrolled = append(in.rep.Uncontrolled, in.site("call "+full, call.Pos(), ""))
		return
	}
	if !in.full {
		return
	}
	// cooperative sync primitives
	var simName string
	wantSite := false
	switch full {
	case "(*sync.Once).Do":
		simName, wantSite = "OnceDo", true
	case "(*sync.Mutex).Lock":
		simName, wantSite = "MutexLock", true
	case "(*sync.Mutex).Unlock":
		simName = "MutexUnlock"
	case "(*sync.RWMutex).Lock":
		simName, wantSite = "RWMutexLock", true
	case "(*sync.RWMutex).Unlock":
		simName = "RWMutexUnlock"
	case "(*sync.RWMutex).RLock":
		simName, wantSite = "RWMutexRLock", true
	case "(*sync.RWMutex).RUnlock":
		simName = "RWMutexRUnlock"
	case "(*sync.WaitGroup).Add":
		simName = "WaitGroupAdd"
	case "(*sync.WaitGroup).Done":
		simName = "WaitGroupDone"
	case "(*sync.WaitGroup).Wait":
		simName, wantSite = "WaitGroupWait", true
	case "(*sync.Cond).Wait":
		simName, wantSite = "CondWait", true
	case "(*sync.Cond).Signal":
		simName = "CondSignal"
	case "(*sync.Cond).Broadcast":
		simName = "CondBroadcast"
	case "(*sync.Map).Range":
		simName, wantSite = "SyncMapRange", true
	case "(*sync.Pool).Get":
		simName, wantSite = "PoolGet", true
	case "(*sync.Pool).Put":
		simName, wantSite = "PoolPut", true
	case "(*time.Timer).Stop":
		simName = "TimerStop"
	case "(*time.Timer).Reset":
		simName = "TimerReset"
	case "(*time.Ticker).Stop":
		simName = "TickerStop"
	case "(*time.Ticker).Reset":
		simName = "TickerReset"
	default:
		return
	}
	sel, ok := ast.Unparen(call.Fun).(*ast.SelectorExpr)
	if !ok {
		return
	}
	selection := info.Selections[sel]
	if selection == nil {
		return
	}
	// Build the receiver expression including implicit embedded field hops.
	recv := sel.X
	t := info.TypeOf(sel.X)
	idx := selection.Index()
	for _, fi := range idx[:len(idx)-1] {
		st := structOf(t)
		if st == nil {
			return
		}
		f := st.Field(fi)
		recv = &ast.SelectorExpr{X: recv, Sel: ast.NewIdent(f.Name())}
		t = f.Type()
	}
	var arg ast.Expr
	if _, isPtr := t.Underlying().(*types.Pointer); isPtr {
		arg = recv
	} else {
		arg = &ast.UnaryExpr{Op: token.AND, X: recv}
	}
	site := in.site("sync", call.Pos(), fn.Name())
	in.rep.SyncSites = append(in.rep.SyncSites, site)
	args := []ast.Expr{arg}
	args = append(args, call.Args...)
	if wantSite {
		args = append(args, strLit(site))
	}
	call.Fun = &ast.SelectorExpr{X: ast.NewIdent("simrt"), Sel: ast.NewIdent(simName)}
	call.Args = args
	in.changed = true
}

// rewriteRangeChan turns `for v := range ch { body }` into
//
//	for _verifCh := ch; ; {
//		_verifV, _verifOk := simrt.ChanRecv2(_verifCh, site)
//		if !_verifOk { break }
//		v := _verifV
//		{ body }
//	}
func (in *instr) rewriteRangeChan(n *ast.RangeStmt) ast.Stmt {
	site := in.site("chan", n.Pos(), "range "+in.exprString(n.X))
	in.rep.SyncSites = append(in.rep.SyncSites, site)
	id := func(s string) *ast.Ident { return ast.NewIdent(s) }
	list := []ast.Stmt{
		&ast.AssignStmt{Lhs: []ast.Expr{id("_verifV"), id("_verifOk")}, Tok: token.DEFINE,
			Rhs: []ast.Expr{simCall("ChanRecv2", id("_verifCh"), strLit(site))}},
		&ast.IfStmt{Cond: &ast.UnaryExpr{Op: token.NOT, X: id("_verifOk")},
			Body: &ast.BlockStmt{List: []ast.Stmt{&ast.BranchStmt{Tok: token.BREAK}}}},
	}
	switch {
	case n.Key == nil:
		list = append(list, &ast.AssignStmt{Lhs: []ast.Expr{id("_")}, Tok: token.ASSIGN, Rhs: []ast.Expr{id("_verifV")}})
	case n.Tok == token.DEFINE:
		if k, ok := n.Key.(*ast.Ident); ok && k.Name == "_" {
			list = append(list, &ast.AssignStmt{Lhs: []ast.Expr{id("_")}, Tok: token.ASSIGN, Rhs: []ast.Expr{id("_verifV")}})
		} else {
			list = append(list, &ast.AssignStmt{Lhs: []ast.Expr{n.Key}, Tok: token.DEFINE, Rhs: []ast.Expr{id("_verifV")}})
		}
	default:
		list = append(list, &ast.AssignStmt{Lhs: []ast.Expr{n.Key}, Tok: token.ASSIGN, Rhs: []ast.Expr{id("_verifV")}})
	}
	list = append(list, n.Body)
	return &ast.ForStmt{
		Init: &ast.AssignStmt{Lhs: []ast.Expr{id("_verifCh")}, Tok: token.DEFINE, Rhs: []ast.Expr{n.X}},
		Body: &ast.BlockStmt{List: list},
	}
}

// rewriteSelect keeps the communication clauses in a real select statement
// (the real channels carry the values and the happens-before edges) but takes
// the two decisions a select makes away from the Go runtime:
//
//   - which ready case is taken (the runtime picks uniformly at random): the
//     cases are attempted one at a time, in an order chosen by the tape, by
//     masking the channel operands of all other cases with nil (a nil channel
//     is never ready);
//   - blocking: when no case is ready the task parks in the simulator and the
//     select is retried (or the user's default clause runs).
//
// The channel operands of receive cases and the channel and value operands of
// send cases are evaluated exactly once, in source order, before the first
// attempt, as the language specifies.
//
//	{
//		_c0 := a; _c1 := b; _s1 := v          // operands, evaluated once
//		_m0 := _c0; _m1 := _c1; _k := 0
//		_o := simrt.SelectOrder(2, site)
//	_verifSelN:
//		_m0, _m1 = _c0, _c1
//		if _o[_k] != 0 { _m0 = nil }
//		if _o[_k] != 1 { _m1 = nil }
//		select {
//		case x := <-_m0: simrt.Unlocked(); ...
//		case _m1 <- _s1: simrt.Unlocked(); ...
//		default:
//			_k++
//			if _k < 2 { goto _verifSelN }
//			_k = 0
//			simrt.SelectBlocked(site); goto _verifSelN      // or the user's default body
//		}
//	}
func (in *instr) rewriteSelect(n *ast.SelectStmt, mayHoist bool) ast.Stmt {
	if in.comm == nil {
		in.comm = map[ast.Node]bool{}
	}
	var userDefault *ast.CommClause
	var cases []*ast.CommClause
	for _, cl := range n.Body.List {
		cc, ok := cl.(*ast.CommClause)
		if !ok {
			continue
		}
		if cc.Comm == nil {
			userDefault = cc
			continue
		}
		cases = append(cases, cc)
		in.comm[cc.Comm] = true
		switch st := cc.Comm.(type) {
		case *ast.ExprStmt:
			in.comm[ast.Unparen(st.X)] = true
		case *ast.AssignStmt:
			if len(st.Rhs) == 1 {
				in.comm[ast.Unparen(st.Rhs[0])] = true
			}
		}
		cc.Body = append([]ast.Stmt{&ast.ExprStmt{X: simCall("Unlocked")}}, cc.Body...)
	}
	in.changed = true
	site := in.site("chan", n.Pos(), "select")
	in.rep.SyncSites = append(in.rep.SyncSites, site)
	if len(cases) == 0 {
		if userDefault == nil {
			// `select {}` blocks forever
			n.Body.List = append(n.Body.List, &ast.CommClause{Body: []ast.Stmt{
				&ast.ForStmt{Body: &ast.BlockStmt{List: []ast.Stmt{&ast.ExprStmt{X: simCall("Blocked", strLit(site))}}}},
			}})
		}
		return nil
	}
	in.nsel++
	pfx := "_verifSel" + strconv.Itoa(in.nsel)
	label := pfx
	id := func(s string) *ast.Ident { return ast.NewIdent(s) }
	define := func(name string, e ast.Expr) ast.Stmt {
		return &ast.AssignStmt{Lhs: []ast.Expr{id(name)}, Tok: token.DEFINE, Rhs: []ast.Expr{e}}
	}
	intLit := func(i int) ast.Expr { return &ast.BasicLit{Kind: token.INT, Value: strconv.Itoa(i)} }
	if !mayHoist {
		// `L: select`: a block in its place would orphan `break L`. The operands
		// are re-evaluated per attempt and the runtime picks among ready cases
		// (reported as uncontrolled).
		in.rep.Uncontrolled = append(in.rep.Uncontrolled, in.site("labelled-select", n.Pos(), ""))
		if userDefault != nil {
			return nil
		}
		n.Body.List = append(n.Body.List, &ast.CommClause{Body: []ast.Stmt{
			&ast.ExprStmt{X: simCall("SelectBlocked", strLit(site))},
			&ast.BranchStmt{Tok: token.GOTO, Label: id(label)},
		}})
		return &ast.LabeledStmt{Label: id(label), Stmt: n}
	}
	var pre []ast.Stmt  // operand evaluation, source order
	var post []ast.Stmt // masked copies
	var reset []ast.Stmt
	chanOf := func(cc *ast.CommClause) *ast.Expr {
		switch st := cc.Comm.(type) {
		case *ast.SendStmt:
			return &st.Chan
		case *ast.ExprStmt:
			if u, ok := ast.Unparen(st.X).(*ast.UnaryExpr); ok && u.Op == token.ARROW {
				return &u.X
			}
		case *ast.AssignStmt:
			if len(st.Rhs) == 1 {
				if u, ok := ast.Unparen(st.Rhs[0]).(*ast.UnaryExpr); ok && u.Op == token.ARROW {
					return &u.X
				}
			}
		}
		return nil
	}
	for i, cc := range cases {
		ce := chanOf(cc)
		if ce == nil {
			return nil // a form this rewrite does not know: leave the select alone
		}
		si := strconv.Itoa(i)
		cName, mName := pfx+"c"+si, pfx+"m"+si
		pre = append(pre, define(cName, *ce))
		if st, ok := cc.Comm.(*ast.SendStmt); ok {
			if tv, ok := in.pkg.TypesInfo.Types[st.Value]; !ok || (!tv.IsNil() && tv.Value == nil) {
				sName := pfx + "s" + si
				pre = append(pre, define(sName, st.Value))
				st.Value = id(sName)
			}
		}
		post = append(post, define(mName, id(cName)))
		reset = append(reset,
			&ast.AssignStmt{Lhs: []ast.Expr{id(mName)}, Tok: token.ASSIGN, Rhs: []ast.Expr{id(cName)}},
			&ast.IfStmt{
				Cond: &ast.BinaryExpr{X: &ast.IndexExpr{X: id(pfx + "o"), Index: id(pfx + "k")}, Op: token.NEQ, Y: intLit(i)},
				Body: &ast.BlockStmt{List: []ast.Stmt{&ast.AssignStmt{Lhs: []ast.Expr{id(mName)}, Tok: token.ASSIGN, Rhs: []ast.Expr{id("nil")}}}},
			})
		*ce = id(mName)
	}
	tail := []ast.Stmt{
		&ast.IncDecStmt{X: id(pfx + "k"), Tok: token.INC},
		&ast.IfStmt{
			Cond: &ast.BinaryExpr{X: id(pfx + "k"), Op: token.LSS, Y: intLit(len(cases))},
			Body: &ast.BlockStmt{List: []ast.Stmt{&ast.BranchStmt{Tok: token.GOTO, Label: id(label)}}},
		},
	}
	if userDefault != nil {
		userDefault.Body = append(tail, userDefault.Body...)
	} else {
		tail = append(tail,
			&ast.AssignStmt{Lhs: []ast.Expr{id(pfx + "k")}, Tok: token.ASSIGN, Rhs: []ast.Expr{intLit(0)}},
			&ast.ExprStmt{X: simCall("SelectBlocked", strLit(site))},
			&ast.BranchStmt{Tok: token.GOTO, Label: id(label)})
		n.Body.List = append(n.Body.List, &ast.CommClause{Body: tail})
	}
	// the operand expressions left the subtree astutil.Apply is walking: give
	// them the same treatment here (a `time.After(d)` operand, a nested receive)
	for i := range pre {
		if st, ok := astutil.Apply(pre[i], in.preFn, nil).(ast.Stmt); ok {
			pre[i] = st
		}
	}
	list := append(pre, post...)
	list = append(list,
		define(pfx+"k", intLit(0)),
		define(pfx+"o", simCall("SelectOrder", intLit(len(cases)), strLit(site))))
	reset[0] = &ast.LabeledStmt{Label: id(label), Stmt: reset[0]}
	list = append(list, reset...)
	list = append(list, n)
	return &ast.BlockStmt{List: list}
}

func structOf(t types.Type) *types.Struct {
	for {
		switch u := t.Underlying().(type) {
		case *types.Pointer:
			t = u.Elem()
			continue
		case *types.Struct:
			return u
		default:
			return nil
		}
	}
}

// rewriteGo turns `go f(a, b)` into
//
//	{ _vf := f; _v0 := a; _v1 := b; simrt.Go(func() { _vf(_v0, _v1) }) }
//
// so that the function value and the arguments are still evaluated by the
// parent at the go statement (as the language specifies) while the new
// goroutine becomes a simulated task. Returns nil for forms it does not handle
// (builtins, conversions): those stay real goroutines and are reported.
func (in *instr) rewriteGo(g *ast.GoStmt) ast.Stmt {
	call := g.Call
	info := in.pkg.TypesInfo
	if tv, ok := info.Types[call.Fun]; ok && (tv.IsType() || tv.IsBuiltin()) {
		return nil
	}
	var stmts []ast.Stmt
	assign := func(name string, e ast.Expr) ast.Expr {
		id := ast.NewIdent(name)
		stmts = append(stmts, &ast.AssignStmt{Lhs: []ast.Expr{id}, Tok: token.DEFINE, Rhs: []ast.Expr{e}})
		return ast.NewIdent(name)
	}
	var fun ast.Expr
	if lit, ok := ast.Unparen(call.Fun).(*ast.FuncLit); ok {
		fun = lit // a literal needs no evaluation
	} else {
		fun = assign("_verifGoF", call.Fun)
	}
	args := make([]ast.Expr, len(call.Args))
	for i, a := range call.Args {
		if tv, ok := info.Types[a]; ok && tv.IsNil() {
			args[i] = a
			continue
		}
		args[i] = assign("_verifGoA"+strconv.Itoa(i), a)
	}
	inner := &ast.CallExpr{Fun: fun, Args: args, Ellipsis: call.Ellipsis}
	if call.Ellipsis != token.NoPos {
		inner.Ellipsis = 1
	}
	body := &ast.BlockStmt{List: []ast.Stmt{&ast.ExprStmt{X: inner}}}
	stmts = append(stmts, &ast.ExprStmt{X: simCall("Go", &ast.FuncLit{Type: &ast.FuncType{Params: &ast.FieldList{}}, Body: body})})
	return &ast.BlockStmt{List: stmts}
}
