#!/bin/bash
# tools/benigncheck.sh [name ...]
# Property-preserving changes to openfga/language (under /verif/benign/<name>/:
# patch.diff + checks.txt listing the properties to run) must NOT raise an alarm:
# each is applied to a scratch worktree of /repo HEAD, must compile and pass the
# unedited suite, and every listed quick check must exit 0 without a VIOLATION line.
export GOFLAGS=-mod=mod GOPROXY=off GOSUMDB=off GOTOOLCHAIN=local
ROOT=$(dirname $(dirname $(readlink -f $0)))
bad=0
for d in $ROOT/benign/*/; do
  name=$(basename $d)
  if [ $# -gt 0 ] && ! echo " $* " | grep -q " $name "; then continue; fi
  WT=$(mktemp -d /tmp/benignwt-XXXX); rmdir $WT
  OUT=$(mktemp -d /tmp/benignout-XXXX)
  git -C /repo worktree add --detach $WT HEAD >/dev/null 2>&1 || exit 2
  if ! git -C $WT apply $d/patch.diff; then echo "$name: patch does not apply"; bad=1
  elif ! ( cd $WT/pkg/go && go build ./... ); then echo "$name: does not compile"; bad=1
  elif ! ( cd $WT/pkg/go && go test -vet=off -count=1 ./... >$OUT/suite.log 2>&1 ); then echo "$name: suite fails"; bad=1
  else
    for prop in $(cat $d/checks.txt); do
      VERIF_REPO=$WT VERIF_OUT=$OUT $ROOT/check $prop ${TIER:-quick} >$OUT/check.log 2>&1; rc=$?
      n=$(grep -c '^VIOLATION' $OUT/check.log)
      if [ $rc = 0 ] && [ $n = 0 ]; then echo "$name $prop: quiet (ok) $(grep -m1 workloads $OUT/check.log | cut -d: -f2 | cut -c1-90)"
      else echo "$name $prop: exit $rc, $n VIOLATION lines (FALSE ALARM or trouble)"; tail -5 $OUT/check.log; bad=1; fi
    done
  fi
  git -C /repo worktree remove --force $WT >/dev/null 2>&1; rm -rf $WT $OUT
done
exit $bad
