#!/usr/bin/env python3
"""Generates /verif/MANIFEST.json. Edit the tables here, not the JSON."""
import json, os, subprocess

ROOT = os.path.dirname(os.path.dirname(os.path.abspath(__file__)))

NOTE_COMMON = ("Trusted base: the instrumenter's rewrites are semantics preserving (each seam only produces "
               "behaviours the Go specification allows; the repository's own suite passes on the instrumented copy in "
               "setup_cmd); protobuf/protojson/yaml runtimes; sampling, not enumeration. Seams that only a changed tree reaches "
               "(discrete-event clock with timers, sleeps and context deadlines; cooperative sync.Cond; simulated sync.Pool; "
               "tape-ordered select; weak-hash mode for 32/64-bit non-cryptographic hashes in half of the worker processes) are "
               "described in DESIGN.md 13.12-13.13; on the pinned tree they have nothing to act on.")

CHECKS = {
    "C04": dict(engine="wgsim", design="§7.3, §8 C04",
        technique="deterministic simulation: seeded map-iteration/ULID-clock schedules over the real weighted-graph builder, compared with an executable reference model (longest tuple-hop walk)",
        text="Seeded exploration. Every generated model is built under the complete family of DFS-root rotations plus reverse/last-first/rotate-all policies and random tapes over all 17 weighted-graph map sites with ULID clock faults; every accepted build's node and edge weight maps (also after a call history of other models on the same builder value, and in 1-3 concurrent builds on shared or fresh builders) must equal an independent reference (longest tuple-hop walk in the (node,type) pair graph, operands grouped as the statement says), plus the reference-free clauses (no R# placeholder, no empty relation map, edge = target + hop). Exploration, not proof: the input space is sampled; only the root rotations are complete per model. Also: relation nodes of accepted models the reference rejects are held to the type-set clause; a second AssignWeights on the returned graph must leave it unchanged; nodes and edges a caller keeps without the graph must survive garbage collections and later builds; 70 000 identical builds in one process must agree.",
        note=NOTE_COMMON + " The reference weight model (worker/refgraph.go) encodes the statement."),
    "C05": dict(engine="wgsim", design="§7.2, §8 C05",
        technique="deterministic simulation: seeded traversal-order schedules over the real builder, verdict compared with an executable well-foundedness predicate under every schedule",
        text="Seeded exploration. The verdict of Build (accepted / error wrapping one of the three sentinel errors) is compared with a reference well-foundedness predicate (clauses i-v of DESIGN §7.2) under every schedule of the family; one schedule that accepts a non-well-founded model or rejects a well-founded one is a violation with its tape. Half of the generated models are cycle-biased, half are kept well-founded; fixture-seeded, JSON-only, separator-collision and wildcard-lattice model families are mixed in; builder call histories and concurrent builds on a shared builder are part of the schedule space. One known finding (D12, empty direct assignment as operand) is matched structurally and printed as KNOWN-FINDING. Name dialects (operator labels, keywords, case variants, separator compounds, JSON-only names), operator-lattice models, names carrying the library's internal markers and the wildcard suffix, and mass repetition (70 000 identical builds) are part of the workload space.",
        note=NOTE_COMMON + " The well-foundedness predicate (worker/refgraph.go) encodes the statement."),
    "C06": dict(engine="wgsim", design="§8 C06",
        technique="deterministic simulation: same model built under many seeded map/clock schedules, type/operand permutations and concurrent builder tasks under a seeded serialising scheduler; outcomes compared with the canonical run",
        text="Seeded exploration with a self-consistency oracle: verdict and the position-normalised graph (weights and wildcard sets of every node and edge) must be identical across the schedule family, across permutations of the type definitions, across permutations of commutative operands (relation weights) for 1-3 builder tasks (sequential histories and concurrent builds, on one shared builder value or fresh ones) interleaved by the seeded scheduler at statement granularity; identical tapes are re-executed on a sample to detect uncontrolled nondeterminism. A second AssignWeights on the returned graph and 70 000 identical builds in one process must give the same result; read-modify-write statements on shared variables are split by a yield point.",
        note=NOTE_COMMON + " No reference model involved: decides independence from schedule, not correctness."),
    "C10": dict(engine="wgsim", design="§7.1, §8 C10",
        technique="deterministic simulation: ULID clock/entropy faults, map schedules and concurrent builders over the real builder; built graph compared with an executable reference structure (isomorphism modulo operator labels)",
        text="Seeded exploration. Thin schedule dimension (ULID clock stalls/back/forward jumps, non monotone entropy, map order); every accepted build must be isomorphic to the reference structure (nodes, edge kinds, order, tupleset labels, ordered condition sets) with operator nodes matched by position, and the input model must be proto.Equal before and after.",
        note=NOTE_COMMON + " The reference structure (worker/refgraph.go) encodes the statement; TTU edge conditions are not compared (statement silent)."),
    "C11": dict(engine="wgsim", design="§7.4, §8 C11",
        technique="deterministic simulation: seeded traversal-order schedules over the real builder, wildcard lists compared with reachability of T:* nodes in the reference graph",
        text="Seeded exploration. Under every schedule of the family the wildcard list of every relation/operator/type node and of every edge must equal (as a set, without duplicates) the set of public types reachable in the reference graph; wildcard-heavy generator bias (inside/behind tuple cycles, under intersections/exclusions).",
        note=NOTE_COMMON + " The wildcard node's own list is not compared (statement silent on zero-length reachability)."),

    "C07": dict(engine="mergesim", design="§7.6, §8 C07",
        technique="deterministic simulation: seeded map-iteration schedules, delivery permutation/duplication, cold/warm parser history and concurrent merges over the real merger, compared with a reference merge computed from the generator's plan",
        text="Seeded exploration. Generated module sets (half conflict-free, half with injected conflicts of every kind of the statement) are merged under schedules over the six merger map sites, after cold restarts and warm-up histories, in permuted delivery orders, with a file delivered twice and in four token/indentation layouts; success iff the plan is conflict-free, the returned model equals the plan's attributed union (types, relations, rewrites, restrictions, conditions, module/file attribution, GetModuleForObjectTypeRelation, schema version), on conflict a non-nil error with nil model naming a file that may be blamed for every conflict, never a panic. Module sets also carry name spellings (./x, dir//x, dir\\x), the same contents under two spellings, conditions named like types, joined-key collision names, files extending the type they define, BOM-prefixed files, 20-72 files and 999-1025 type definitions.",
        note=NOTE_COMMON + " Expected outcomes are derived from the plan (worker/mergesim.go); parse errors are not required to name their file."),
    "C12": dict(engine="mergesim", design="§8 C12",
        technique="deterministic simulation: same file list merged under many seeded map schedules, histories and interleavings; permuted file lists; outcomes compared with the canonical run",
        text="Seeded exploration with a self-consistency oracle: for one file list the full outcome (model with proto.Equal, or the sequence of (message, file, line, column)) must be identical under every schedule of the family, after cold/warm parser histories and in 2-3 concurrent merges; for permuted file lists success/failure must not change and successful models must be equal after sorting type definitions by name (also for two different files delivered under one name). Same workload space as C07 (name spellings, thousand-type sets with a duplicate positioned at the threshold, list reuse histories).",
        note=NOTE_COMMON + " Decides independence from schedule and file order, not functional correctness (that is C07)."),
    "C13": dict(engine="puresim", design="§4, §7.5, §8 C13",
        technique="deterministic simulation of 1-4 caller threads under a seeded serialising scheduler that is invisible to the race detector (plain + -race builds), with cold restarts of the parser caches, warm histories and shared inputs; results compared with the sequential cold reference, inputs with deep copies",
        text="Seeded exploration. Real goroutines, one running at a time, hand-off through plain memory in //go:norace code so ThreadSanitizer learns no happens-before edge from the simulator: unsynchronised sharing between serialised tasks is reported deterministically and replays from the tape. Every public transformer/graph/validator call's complete result must equal the sequential cold-start reference (stateless sequential specification: linearizable iff equal) and, for every fifth workload, the result of the same calls in a fresh OS process (restart.process); every input must equal its deep copy; no deadlock; the concurrent phase may need at most 50x the yield points the calls pass sequentially. Shared objects: one model, one module-file list, one weighted builder, one finished plain graph and one finished weighted graph per model (reader storms). Fresh -race processes whose first calls are 2-3 concurrent calls of one kind find first-use races. Goroutines started by the library become simulated tasks. The very objects the calls returned are rendered again after all other calls, the reference calls and a forced garbage collection (result.changed_later); graphs derived from one another must not share state under pruning (absolute clause); option slices travel with spare capacity; model objects edited in place between calls; finalizers run as simulated tasks.",
        note=NOTE_COMMON + " ulid's own locked entropy source is stubbed; interleavings at statement granularity in the hand-written packages, function/loop granularity in the generated parser; happens-before race detection cannot see accesses ordered by accident through the library's own locks, atomics and fmt's pool (the harness itself uses none of them inside tasks); which sentinel error the weighted graph returns is not compared."),
    "C14": dict(engine="rendersim", design="§7.8, §8 C14",
        technique="deterministic simulation: seeded map-iteration schedules over the printer, JSON key-order and type-order delivery permutations, repeated calls; bytes compared with the canonical run and with an executable statement of the documented order",
        text="Seeded exploration. Output bytes must be identical under every schedule over the printer's map sites, for JSON re-encodings with shuffled object keys, for permuted type definitions of modular models, across repeated calls and after calls that fail late (poison models); the sequence of type/relation/condition/parameter names must equal the documented order computed from the plan; with source information, stripping comments must give the plain output and both must parse to proto.Equal models. Every DSL string returned in a workload is kept next to a private copy (render.changed_later); a same-length JSON twin of every model is rendered right after it; models with shared operand messages, relations without metadata entry and foreign (non-ASCII / invalid UTF-8) names are part of the workload space; option slices are reused across calls.",
        note=NOTE_COMMON + " The documented order (worker/rendersim.go) encodes the statement."),
    "C17": dict(engine="plainsim", design="§7.7, §8 C17",
        technique="deterministic simulation: seeded schedules over gonum's map iterators/ranges and the ULID clock under the real plain graph, Reversed, DOT, PathExists, GetCycles; compared with an executable reference plain graph and across schedules",
        text="Seeded exploration. For every generated model and schedule: nodes and typed edges equal the reference plain graph (operators matched by position), Reversed flips every edge and the direction and nothing else, reverse-twice DOT equals DOT, DOT and reversed DOT are byte-identical across schedules and contain no ULID, PathExists equals reference reachability for all label pairs (bounded to 17 labels) and is dual on the reversed graph, label lookup finds exactly type/relation/wildcard nodes, computed-only cycles are reported and acyclic models report none (on the graph, its reverse and its double reverse), reversing does not change the original and is repeatable. Accessors are also called on one graph object in tape-chosen order (plain.call_order); a second reversal right after the first, the end points of the original's lines, GetCycles before Reversed, equal cycle classification of graph and reversals, other spellings of existing labels as negative probes, and independence of derived graphs under pruning are checked.",
        note=NOTE_COMMON + " gonum iterator overlay replaces reflect.MapIter by an order-controlled iterator; plain edge conditions are not observable."),
}

NOT_APPLICABLE = {
    "C01": "pure function of one DSL text: no schedule, clock, fault or interleaving can change a round trip (history/thread independence of parsing is C13); deciding it needs grammar-driven input generation, not simulation",
    "C02": "the expressibility boundary of JSON->DSL is a predicate on one input tree; pure function, nothing to schedule or fault",
    "C03": "layout insensitivity of the parser is a property of the input text alone; pure function",
    "C08": "totality and complexity over all byte strings: a statement about the input space with no schedule, clock or fault in it (panics met during simulated runs are still reported under the property whose operation panicked)",
    "C09": "rejection of structurally invalid DSL is a pure function of the text",
    "C15": "fga.mod validation is a pure function of the manifest text (yaml.v3 + string rules)",
    "C16": "error positions are a pure function of the text; the only schedule-dependent part (which file is blamed, order of the error list) is decided under C12/C07",
    "C18": "validators are anchored regular expressions: membership is a pure function of the string (exercised inside C13 only for thread safety/history)",
    "C19": "static comparison of generated artefacts across three languages: nothing executes, so there is nothing to schedule or fault",
}

PENDING = {}

def main():
    checks = []
    for pid in sorted(CHECKS):
        c = CHECKS[pid]
        checks.append({
            "property_id": pid,
            "quick_cmd": f"./check {pid} quick",
            "thorough_cmd": f"./check {pid} thorough",
            "evidence_file": f"/verif/evidence/{pid}.json",
            "replay_cmd_template": "./check --replay {path}",
            "engine": c["engine"],
            "level_claimed": {"category": "exploration", "text": c["text"], "design_ref": "DESIGN.md " + c["design"]},
            "level_note": c["note"],
            "technique": c["technique"],
        })
    na = [{"property_id": k, "reason": v} for k, v in sorted({**NOT_APPLICABLE, **PENDING}.items()) if k not in CHECKS]
    engines = [
        {"name": "wgsim", "path": "worker/wgsim.go", "serves_properties": ["C04", "C05", "C06", "C10", "C11"], "kind_free_text": "deterministic simulation of the weighted graph builder: seeded map-order/ULID-clock/interleaving schedules + reference models"},
        {"name": "mergesim", "path": "worker/mergesim.go", "serves_properties": ["C07", "C12"], "kind_free_text": "deterministic simulation of the module merger: seeded map schedules, file delivery permutation/duplication + plan-derived reference merge"},
        {"name": "rendersim", "path": "worker/rendersim.go", "serves_properties": ["C14"], "kind_free_text": "puresim's render mode: seeded map schedules over the DSL printer, JSON key-order / type-order permutations, repeated calls"},
        {"name": "puresim", "path": "worker/puresim.go", "serves_properties": ["C13"], "kind_free_text": "deterministic simulation of concurrent callers: seeded serialising scheduler invisible to the race detector, cold restarts, warm histories, shared inputs"},
        {"name": "plainsim", "path": "worker/plainsim.go", "serves_properties": ["C17"], "kind_free_text": "deterministic simulation of the gonum-backed plain graph: seeded gonum map-iterator schedules + reference plain graph"},
    ]
    engines = [e for e in engines if any(p in CHECKS for p in e["serves_properties"])]
    man = {
        "version": 1,
        "setup_cmd": "./setup.sh",
        "hooks": {
            "guard": "verifsim (no hook is committed to /repo: every check copies /repo's working tree to a scratch directory and a go/ast instrumenter splices the seams into the copy; see DESIGN.md §3)",
            "enable": "automatic: ./check copies /repo/pkg/go, runs bin/instrument on the copy (map ranges, ulid/time/env/GOMAXPROCS reads, go statements, sync and channel operations, select, timers and context deadlines, sync.Pool/Cond/Map, non-cryptographic hashes, yield points) and builds the worker with -tags safe against it",
            "baseline_off_cmd": "cd /repo/pkg/go && GOFLAGS=-mod=mod GOPROXY=off GOSUMDB=off GOTOOLCHAIN=local go test -json -vet=off -count=1 -timeout 25m ./...",
            "source_commits": [],
            "add_only": True,
        },
        "engines": engines,
        "checks": checks,
        "not_applicable": na,
        "notes": "Technique family: deterministic simulation with fault injection. Genuine defects repaired by fix: commits in /repo are listed in /verif/known_findings.json (status fixed). Exit 2 = trouble with the machinery itself, never a VIOLATION.",
    }
    json.dump(man, open(os.path.join(ROOT, "MANIFEST.json"), "w"), indent=1)
    print("wrote MANIFEST.json:", len(checks), "checks,", len(na), "not applicable")

if __name__ == "__main__":
    main()
