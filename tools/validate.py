#!/usr/bin/env python3
# validates MANIFEST.json and evidence/*.json against the given schemas
import json, sys, glob, os
import jsonschema
root = os.path.dirname(os.path.dirname(os.path.abspath(__file__)))
man = json.load(open(os.path.join(root, 'MANIFEST.json')))
jsonschema.validate(man, json.load(open('/root/.vp/MANIFEST.schema.json')))
props = [json.loads(l)['id'] for l in open(os.path.join(root, 'properties.jsonl'))]
claimed = [c['property_id'] for c in man['checks']]
na = [c['property_id'] for c in man.get('not_applicable', [])]
assert sorted(claimed + na) == sorted(props), (sorted(claimed + na), props)
es = json.load(open('/root/.vp/EVIDENCE.schema.json'))
for f in sorted(glob.glob(os.path.join(root, 'evidence', '*.json'))):
    ev = json.load(open(f))
    jsonschema.validate(ev, es)
    print(f, 'ok', ev['tier'], ev['coverage']['evaluations'], ev['coverage']['distinct_nontrivial'])
print('manifest ok: claimed', claimed, 'n/a', na)
