// driver orchestrates one check: scratch copy of /repo's working tree ->
// instrument -> overlay antlr/gonum -> build worker(s) -> run shards ->
// aggregate -> minimise + replay file on violation -> evidence -> cleanup.
//
// Exit codes: 0 held (possibly KNOWN-FINDING lines), 1 VIOLATION, 2 trouble
// with the machinery itself (never reported as a violation).
package main

import (
	"encoding/json"
	"fmt"
	"os"
	"os/exec"
	"path/filepath"
	"sort"
	"strconv"
	"strings"
	"sync"
	"time"
)

var (
	// outDir: where evidence/ and replays/ go; VERIF_OUT redirects them when the
	// checks are pointed at a mutated scratch worktree (VERIF_REPO) so that the
	// committed evidence is only ever written by runs against /repo itself
	outDir   = envOr("VERIF_OUT", envOr("VERIF_DIR", exeRoot()))
	verifDir = envOr("VERIF_DIR", exeRoot())
	repoDir  = envOr("VERIF_REPO", "/repo")
	modCache = envOr("GOMODCACHE", "/root/go/pkg/mod")
)

// exeRoot: the driver lives in <verif>/bin/driver; everything it reads
// (worker sources, overlays, simrt, known findings) comes from that tree, so a
// snapshot of /verif is self-contained.
func exeRoot() string {
	if exe, err := os.Executable(); err == nil {
		if real, err := filepath.EvalSymlinks(exe); err == nil {
			return filepath.Dir(filepath.Dir(real))
		}
	}
	return "/verif"
}

func envOr(k, d string) string {
	if v := os.Getenv(k); v != "" {
		return v
	}
	return d
}

func fatal2(f string, a ...any) {
	fmt.Fprintf(os.Stderr, "driver: "+f+"\n", a...)
	cleanup()
	os.Exit(2)
}

var scratch string
var keepScratch = os.Getenv("VERIF_KEEP") != ""

func cleanup() {
	if scratch != "" && !keepScratch {
		_ = exec.Command("chmod", "-R", "u+w", scratch).Run()
		_ = os.RemoveAll(scratch)
	}
}

func goEnv() []string {
	env := os.Environ()
	env = append(env, "GOFLAGS=-mod=mod", "GOPROXY=off", "GOSUMDB=off", "GOTOOLCHAIN=local", "CGO_ENABLED=1")
	return env
}

func run(dir string, env []string, name string, args ...string) (string, error) {
	cmd := exec.Command(name, args...)
	cmd.Dir = dir
	if env != nil {
		cmd.Env = env
	}
	out, err := cmd.CombinedOutput()
	return string(out), err
}

func mustRun(dir string, env []string, name string, args ...string) string {
	out, err := run(dir, env, name, args...)
	if err != nil {
		fatal2("%s %s failed: %v\n%s", name, strings.Join(args, " "), err, out)
	}
	return out
}

// ---------------------------------------------------------------------------
// scratch preparation

type prepInfo struct {
	Scratch      string
	InstrReport  map[string]any
	RepoTreeHash string
}

func prepare() *prepInfo {
	var err error
	scratch, err = os.MkdirTemp("", "verifsim-")
	if err != nil {
		fatal2("mktemp: %v", err)
	}
	S := scratch
	// 1. /repo working tree (pkg/go only; tests/ linked)
	mustRun("", nil, "mkdir", "-p", S+"/repo/pkg")
	mustRun("", nil, "cp", "-a", repoDir+"/pkg/go", S+"/repo/pkg/go")
	if err := os.Symlink(repoDir+"/tests", S+"/repo/tests"); err != nil {
		fatal2("symlink: %v", err)
	}
	// tree hash of the copied sources (evidence)
	h, _ := run(S+"/repo/pkg/go", nil, "sh", "-c", "find . -name '*.go' -o -name go.mod | sort | xargs sha256sum | sha256sum | cut -c1-16")
	info := &prepInfo{Scratch: S, RepoTreeHash: strings.TrimSpace(h)}

	// 2. gonum graph packages
	gsrc := filepath.Join(modCache, "gonum.org/v1/gonum@v0.16.0")
	mustRun("", nil, "mkdir", "-p", S+"/gonum/internal")
	mustRun("", nil, "cp", "-r", gsrc+"/graph", S+"/gonum/graph")
	mustRun("", nil, "cp", "-r", gsrc+"/internal/order", S+"/gonum/internal/order")
	mustRun("", nil, "cp", gsrc+"/go.mod", S+"/gonum/go.mod")
	mustRun("", nil, "chmod", "-R", "u+w", S+"/gonum")
	mustRun(S+"/gonum", nil, "sh", "-c", "find . -name '*_test.go' -delete")
	for _, f := range []string{"nodes_map_safe.go", "lines_map_safe.go"} {
		p := S + "/gonum/graph/iterator/" + f
		b, err := os.ReadFile(p)
		if err != nil {
			fatal2("gonum overlay: %v", err)
		}
		s := string(b)
		if !strings.Contains(s, "reflect.MapIter") {
			fatal2("gonum overlay: %s has no reflect.MapIter", f)
		}
		s = strings.ReplaceAll(s, "reflect.MapIter", "simMapIter")
		// x.value.SetIterValue(&x.iter) -> x.value.Set(x.iter.Value())
		for _, v := range []string{"n", "l"} {
			s = strings.ReplaceAll(s, v+".value.SetIterValue(&"+v+".iter)", v+".value.Set("+v+".iter.Value())")
		}
		if strings.Contains(s, "SetIterValue") {
			fatal2("gonum overlay: unreplaced SetIterValue in %s", f)
		}
		if err := os.WriteFile(p, []byte(s), 0o644); err != nil {
			fatal2("gonum overlay: %v", err)
		}
	}
	copyFile(verifDir+"/overlays/gonum_simiter.go.txt", S+"/gonum/graph/iterator/zz_simiter.go")

	// 3. antlr runtime
	asrc := filepath.Join(modCache, "github.com/antlr4-go/antlr/v4@v4.13.1")
	mustRun("", nil, "cp", "-r", asrc, S+"/antlr")
	mustRun("", nil, "chmod", "-R", "u+w", S+"/antlr")
	mustRun(S+"/antlr", nil, "sh", "-c", "find . -name '*_test.go' -delete")
	copyFile(verifDir+"/overlays/antlr_mutex.go.txt", S+"/antlr/mutex.go")
	// range-over-func (the map seam) needs go >= 1.23 in the module's go.mod
	if b, err := os.ReadFile(S + "/antlr/go.mod"); err == nil {
		lines := strings.Split(string(b), "\n")
		for i, l := range lines {
			if strings.HasPrefix(l, "go ") {
				lines[i] = "go 1.23.0"
			}
			if strings.HasPrefix(l, "toolchain ") {
				lines[i] = ""
			}
		}
		_ = os.WriteFile(S+"/antlr/go.mod", []byte(strings.Join(lines, "\n")), 0o644)
	}

	// 4. simrt
	mustRun("", nil, "cp", "-r", verifDir+"/simrt", S+"/simrt")

	// 5. go.mod of the scratch repo copy
	gomod := S + "/repo/pkg/go/go.mod"
	b, err := os.ReadFile(gomod)
	if err != nil {
		fatal2("read go.mod: %v", err)
	}
	mod := string(b)
	// the pinned toolchain line asks for a toolchain that is not installed;
	// GOTOOLCHAIN=local ignores it.
	mod += "\nrequire verifsim/simrt v0.0.0\n"
	mod += "replace verifsim/simrt => " + S + "/simrt\n"
	mod += "replace gonum.org/v1/gonum => " + S + "/gonum\n"
	mod += "replace github.com/antlr4-go/antlr/v4 => " + S + "/antlr\n"
	if err := os.WriteFile(gomod, []byte(mod), 0o644); err != nil {
		fatal2("write go.mod: %v", err)
	}

	// 6. instrument
	out, err := run(S+"/repo/pkg/go", goEnv(), verifDir+"/bin/instrument", "-dir", S+"/repo/pkg/go", "-report", S+"/instrument.json")
	if err != nil {
		fatal2("instrumenter failed (does /repo compile?): %v\n%s", err, out)
	}
	fmt.Print(out)
	rb, _ := os.ReadFile(S + "/instrument.json")
	_ = json.Unmarshal(rb, &info.InstrReport)
	if c, ok := info.InstrReport["counts"].(map[string]any); ok {
		if n, ok := c["hash"].(float64); ok && n > 0 {
			hashSites = int(n)
		}
	}

	// 7. added files
	copyFile(verifDir+"/overlays/gen_restart.go.txt", S+"/repo/pkg/go/gen/zz_verif_restart.go")

	// 8. worker module
	mustRun("", nil, "mkdir", "-p", S+"/worker", S+"/bin")
	mustRun("", nil, "sh", "-c", "cp "+verifDir+"/worker/*.go "+S+"/worker/")
	wmod := "module verifworker\n\ngo 1.23.0\n\n"
	wmod += "require (\n\tgithub.com/openfga/language/pkg/go v0.0.0\n\tverifsim/simrt v0.0.0\n)\n"
	wmod += "replace github.com/openfga/language/pkg/go => " + S + "/repo/pkg/go\n"
	wmod += "replace verifsim/simrt => " + S + "/simrt\n"
	wmod += "replace gonum.org/v1/gonum => " + S + "/gonum\n"
	wmod += "replace github.com/antlr4-go/antlr/v4 => " + S + "/antlr\n"
	if err := os.WriteFile(S+"/worker/go.mod", []byte(wmod), 0o644); err != nil {
		fatal2("write worker go.mod: %v", err)
	}
	copyFile(repoDir+"/pkg/go/go.sum", S+"/worker/go.sum")
	return info
}

func copyFile(src, dst string) {
	b, err := os.ReadFile(src)
	if err != nil {
		fatal2("copy %s: %v", src, err)
	}
	if err := os.WriteFile(dst, b, 0o644); err != nil {
		fatal2("copy %s: %v", dst, err)
	}
}

func buildWorker(race bool) string {
	S := scratch
	bin := S + "/bin/worker"
	tags := "safe"
	if x := os.Getenv("VERIF_EXTRA_TAGS"); x != "" {
		tags += "," + x // sensitivity tests only, e.g. antlr.nomutex
	}
	args := []string{"build", "-trimpath", "-tags", tags, "-o"}
	if race {
		bin += "-race"
		args = []string{"build", "-trimpath", "-race", "-tags", tags, "-o"}
	}
	args = append(args, bin, ".")
	out, err := run(S+"/worker", goEnv(), "go", args...)
	if err != nil {
		fatal2("building the worker against the instrumented tree failed: %v\n%s", err, out)
	}
	return bin
}

// selfTest runs the repository's own suite inside the instrumented copy in
// pass-through mode.
func selfTest() {
	S := scratch
	out, err := run(S+"/repo/pkg/go", goEnv(), "go", "test", "-tags", "safe", "-vet=off", "-count=1", "./...")
	if err != nil {
		fatal2("the repository's suite fails on the instrumented copy (pass-through mode):\n%s", out)
	}
	fmt.Print(out)
}

// ---------------------------------------------------------------------------
// batch execution

type Violation struct {
	Property     string          `json:"property"`
	Engine       string          `json:"engine"`
	Class        string          `json:"class"`
	Detail       string          `json:"detail"`
	Known        string          `json:"known,omitempty"`
	Seed         uint64          `json:"seed"`
	Run          uint64          `json:"run"`
	Workload     json.RawMessage `json:"workload"`
	Sched        json.RawMessage `json:"sched"`
	SchedName    string          `json:"sched_name"`
	Fingerprint  string          `json:"fingerprint"`
	Minimised    bool            `json:"minimised,omitempty"`
	Describe     string          `json:"describe,omitempty"`
	RaceReport   string          `json:"race_report,omitempty"`
	Batch        json.RawMessage `json:"batch,omitempty"`
	BatchHistory bool            `json:"batch_history,omitempty"`
}

type Sample struct {
	Workload string `json:"workload"`
	Sched    string `json:"schedule"`
	Outcome  string `json:"outcome"`
}

type BatchResult struct {
	Engine        string             `json:"engine"`
	Property      string             `json:"property"`
	Seed          uint64             `json:"seed"`
	Shard         int                `json:"shard"`
	Workloads     int                `json:"workloads"`
	Evaluations   int                `json:"evaluations"`
	Fingerprints  []uint64           `json:"fingerprints"`
	WorkloadKeys  []uint64           `json:"workload_keys"`
	Faults        map[string]int64   `json:"faults"`
	SitesSeen     map[string]int64   `json:"sites_seen"`
	SitesHit      map[string]int64   `json:"sites_hit"`
	Steps         int64              `json:"steps"`
	Switches      int64              `json:"switches"`
	ClockMs       int64              `json:"clock_ms"`
	ULIDs         int64              `json:"ulids"`
	Mix           map[string]int64   `json:"mix"`
	Violations    []Violation        `json:"violations"`
	ViolationCnt  map[string]int64   `json:"violation_counts"`
	KnownHits     map[string]int64   `json:"known_hits"`
	KnownExamples map[string]string  `json:"known_examples"`
	Samples       []Sample           `json:"samples"`
	RerunN        int                `json:"rerun_n"`
	RerunDiv      int                `json:"rerun_divergences"`
	Probes        map[string]int64   `json:"probes"`
	WallS         float64            `json:"wall_s"`
	TimedOut      bool               `json:"timed_out,omitempty"`
	Extra         map[string]float64 `json:"extra,omitempty"`
}

type propSpec struct {
	engine   string
	race     bool    // also run a race-build share
	quickN   int     // workloads, quick
	thorN    int     // workloads, thorough
	quickS   float64 // wall-clock cap per worker (seconds)
	thorS    float64
	rule     string
	mustHit  []string // fault kinds that must have fired (else exit 2)
	level    string
	assume   []string
	nontrivR string
}

var specs = map[string]*propSpec{}

func addMap(dst, src map[string]int64) {
	for k, v := range src {
		dst[k] += v
	}
}

type aggregate struct {
	BatchResult
	fp      map[uint64]bool
	keys    map[uint64]bool
	shards  int
	crashed []string
}

// hashSites: number of hash computations the instrumenter put behind the
// weak-hash seam (0 on the unchanged tree). When there are any, half of the
// worker processes run with weakened hashes (simrt/hash.go): the mode is a
// function of the shard index and recorded in every violation's batch position.
var hashSites int

func weakHashBits(shard int) int {
	if hashSites == 0 {
		return 0
	}
	switch shard % 4 {
	case 2:
		return 8
	case 3:
		return 3
	}
	return 0
}

func weakShards(n int) int {
	c := 0
	for sh := 0; sh < n; sh++ {
		if weakHashBits(sh) != 0 {
			c++
		}
	}
	return c
}

func runShards(bin string, engine, prop, tier string, seed uint64, n int, maxSecs float64, nshards int, shardOffset int, race bool, agg *aggregate) {
	S := scratch
	var wg sync.WaitGroup
	var mu sync.Mutex
	for sh := 0; sh < nshards; sh++ {
		wg.Add(1)
		go func(sh int) {
			defer wg.Done()
			tag := fmt.Sprintf("%s-%d", filepath.Base(bin), sh)
			out := fmt.Sprintf("%s/out-%s.json", S, tag)
			args := []string{"run", "-engine", engine, "-prop", prop, "-tier", tier, "-seed", strconv.FormatUint(seed, 10),
				"-shard", strconv.Itoa(sh), "-nshards", strconv.Itoa(nshards), "-n", strconv.Itoa(n),
				"-maxsecs", fmt.Sprint(maxSecs), "-out", out, "-known", verifDir + "/known_findings.json", "-repo", repoDir}
			if race {
				args = append(args, "-race")
			}
			cmd := exec.Command(bin, args...)
			cmd.Env = append(os.Environ(), "GOMAXPROCS=1", "GORACE=log_path="+S+"/race-"+tag+" halt_on_error=0 exitcode=0 atexit_sleep_ms=0 history_size=4", "VERIF_RACELOG="+S+"/race-"+tag, "VERIF_WEAKHASH="+strconv.Itoa(weakHashBits(sh)))
			logf, _ := os.Create(fmt.Sprintf("%s/log-%s.txt", S, tag))
			cmd.Stderr = logf
			cmd.Stdout = logf
			done := make(chan error, 1)
			if err := cmd.Start(); err != nil {
				mu.Lock()
				agg.crashed = append(agg.crashed, fmt.Sprintf("shard %d: start: %v", sh, err))
				mu.Unlock()
				return
			}
			go func() { done <- cmd.Wait() }()
			var err error
			select {
			case err = <-done:
			case <-time.After(time.Duration((maxSecs*2 + 120) * float64(time.Second))):
				_ = cmd.Process.Kill()
				err = fmt.Errorf("watchdog: worker exceeded %v s", maxSecs*2+120)
			}
			logf.Close()
			if err != nil {
				tail, _ := run("", nil, "tail", "-n", "30", logf.Name())
				mu.Lock()
				agg.crashed = append(agg.crashed, fmt.Sprintf("shard %d (%s): %v\n%s", sh, tag, err, tail))
				mu.Unlock()
				return
			}
			data, rerr := os.ReadFile(out)
			var br BatchResult
			if rerr != nil || json.Unmarshal(data, &br) != nil {
				mu.Lock()
				agg.crashed = append(agg.crashed, fmt.Sprintf("shard %d: unreadable result", sh))
				mu.Unlock()
				return
			}
			mu.Lock()
			agg.merge(&br)
			mu.Unlock()
		}(sh)
	}
	wg.Wait()
}

func (a *aggregate) merge(b *BatchResult) {
	a.shards++
	a.Workloads += b.Workloads
	a.Evaluations += b.Evaluations
	for _, f := range b.Fingerprints {
		a.fp[f] = true
	}
	for _, k := range b.WorkloadKeys {
		a.keys[k] = true
	}
	addMap(a.Faults, b.Faults)
	addMap(a.SitesSeen, b.SitesSeen)
	addMap(a.SitesHit, b.SitesHit)
	addMap(a.Mix, b.Mix)
	addMap(a.ViolationCnt, b.ViolationCnt)
	addMap(a.KnownHits, b.KnownHits)
	addMap(a.Probes, b.Probes)
	for k, v := range b.KnownExamples {
		if _, ok := a.KnownExamples[k]; !ok {
			a.KnownExamples[k] = v
		}
	}
	a.Steps += b.Steps
	a.Switches += b.Switches
	a.ClockMs += b.ClockMs
	a.ULIDs += b.ULIDs
	a.Violations = append(a.Violations, b.Violations...)
	if len(a.Samples) < 3 {
		a.Samples = append(a.Samples, b.Samples...)
		if len(a.Samples) > 3 {
			a.Samples = a.Samples[:3]
		}
	}
	a.RerunN += b.RerunN
	a.RerunDiv += b.RerunDiv
	if b.TimedOut {
		a.TimedOut = true
	}
	for k, v := range b.Extra {
		if a.Extra == nil {
			a.Extra = map[string]float64{}
		}
		if strings.HasPrefix(k, "max_") {
			if v > a.Extra[k] {
				a.Extra[k] = v
			}
		} else {
			a.Extra[k] += v
		}
	}
}

func newAggregate() *aggregate {
	a := &aggregate{fp: map[uint64]bool{}, keys: map[uint64]bool{}}
	a.Faults = map[string]int64{}
	a.SitesSeen = map[string]int64{}
	a.SitesHit = map[string]int64{}
	a.Mix = map[string]int64{}
	a.ViolationCnt = map[string]int64{}
	a.KnownHits = map[string]int64{}
	a.KnownExamples = map[string]string{}
	a.Probes = map[string]int64{}
	return a
}

// ---------------------------------------------------------------------------

func main() {
	if len(os.Args) < 2 {
		fmt.Fprintln(os.Stderr, "usage: driver check <ID> quick|thorough | replay <file> | selftest | prepare")
		os.Exit(2)
	}
	switch os.Args[1] {
	case "check":
		if len(os.Args) < 4 {
			fatal2("usage: driver check <ID> quick|thorough")
		}
		os.Exit(cmdCheck(os.Args[2], os.Args[3]))
	case "replay":
		if len(os.Args) < 3 {
			fatal2("usage: driver replay <file>")
		}
		os.Exit(cmdReplay(os.Args[2]))
	case "selftest":
		prepare()
		selfTest()
		buildWorker(false)
		buildWorker(true)
		cleanup()
		fmt.Println("selftest ok")
	case "prepare":
		keepScratch = true
		info := prepare()
		buildWorker(false)
		fmt.Println(info.Scratch)
	default:
		fatal2("unknown command %s", os.Args[1])
	}
}

func seedFromEnv() uint64 {
	if s := os.Getenv("VERIF_SEED"); s != "" {
		if v, err := strconv.ParseInt(s, 10, 64); err == nil {
			return uint64(v)
		}
	}
	return 1
}

func cmdCheck(prop, tier string) int {
	if t := os.Getenv("VERIF_TIER"); t == "quick" || t == "thorough" {
		tier = t
	}
	if tier != "quick" && tier != "thorough" {
		fatal2("tier must be quick or thorough")
	}
	spec := specs[prop]
	if spec == nil {
		fatal2("no check for property %s", prop)
	}
	start := time.Now()
	seed := seedFromEnv()
	info := prepare()
	defer cleanup()
	bin := buildWorker(false)
	buildS := time.Since(start).Seconds()

	n, maxS := spec.quickN, spec.quickS
	if tier == "thorough" {
		n, maxS = spec.thorN, spec.thorS
	}
	if v := os.Getenv("VERIF_N"); v != "" {
		if x, err := strconv.Atoi(v); err == nil {
			n = x
		}
	}
	agg := newAggregate()
	agg.Engine, agg.Property, agg.Seed = spec.engine, prop, seed
	nshards := 16
	if v := os.Getenv("VERIF_WORKERS"); v != "" {
		if x, err := strconv.Atoi(v); err == nil && x > 0 {
			nshards = x
		}
	}
	runStart := time.Now()
	if spec.race {
		// race share: separate worker binary, a fifth of the workloads, run
		// concurrently with the plain shards on a quarter of the cores
		rbin := buildWorker(true)
		var wg sync.WaitGroup
		wg.Add(2)
		ragg := newAggregate()
		rn := n / 6
		if rn < 8 {
			rn = 8
		}
		rshards := nshards * 3 / 8
		if rshards < 1 {
			rshards = 1
		}
		go func() {
			defer wg.Done()
			runShards(bin, spec.engine, prop, tier, seed, n, maxS, nshards-rshards, 0, false, agg)
		}()
		go func() {
			defer wg.Done()
			runShards(rbin, spec.engine, prop, tier, seed+0x5eed, rn, maxS, rshards, 0, true, ragg)
		}()
		wg.Wait()
		agg.Probes["race_workloads"] += int64(ragg.Workloads)
		agg.Probes["race_evaluations"] += int64(ragg.Evaluations)
		agg.crashed = append(agg.crashed, ragg.crashed...)
		rw, re := ragg.Workloads, ragg.Evaluations
		_ = rw
		_ = re
		for i := range ragg.Violations {
			agg.Violations = append(agg.Violations, ragg.Violations[i])
		}
		ragg.Violations = nil
		sh := agg.shards
		agg.merge(&ragg.BatchResult)
		agg.shards = sh + ragg.shards
		for f := range ragg.fp {
			agg.fp[f] = true
		}
		for f := range ragg.keys {
			agg.keys[f] = true
		}
	} else {
		runShards(bin, spec.engine, prop, tier, seed, n, maxS, nshards, 0, false, agg)
	}
	runS := time.Since(runStart).Seconds()
	if len(agg.crashed) > 0 {
		// A worker that dies is re-run alone by hand (VERIF_KEEP=1); here it is
		// infrastructure trouble.
		fatal2("worker trouble:\n%s", strings.Join(agg.crashed, "\n"))
	}

	// violations: minimise the first few, write replay files
	sort.SliceStable(agg.Violations, func(i, j int) bool {
		if agg.Violations[i].Class != agg.Violations[j].Class {
			return agg.Violations[i].Class < agg.Violations[j].Class
		}
		return agg.Violations[i].Run < agg.Violations[j].Run
	})
	var replayFiles []string
	seenClass := map[string]int{}
	_ = os.MkdirAll(outDir+"/replays", 0o755)
	for i := range agg.Violations {
		v := &agg.Violations[i]
		if seenClass[v.Class] >= 1 || len(replayFiles) >= 4 {
			continue
		}
		seenClass[v.Class]++
		raw := fmt.Sprintf("%s/viol-%d.json", scratch, i)
		min := fmt.Sprintf("%s/viol-%d-min.json", scratch, i)
		b, _ := json.MarshalIndent(v, "", " ")
		_ = os.WriteFile(raw, b, 0o644)
		wbin := bin
		if v.RaceReport != "" {
			wbin = scratch + "/bin/worker-race"
		}
		final := raw
		// (race violations: one fresh process per candidate, see minimiseRace)
		if out, err := run("", append(os.Environ(), "GOMAXPROCS=1", "GORACE=log_path="+scratch+"/race-min halt_on_error=0 exitcode=0 atexit_sleep_ms=0 history_size=4", "VERIF_RACELOG="+scratch+"/race-min"), wbin, "replay", "-minimise", "-file", raw, "-out", min, "-known", verifDir+"/known_findings.json"); err == nil {
			final = min
		} else {
			fmt.Fprintf(os.Stderr, "driver: minimisation failed (%v): %s\n", err, out)
		}
		// does the (minimised) workload reproduce on its own in a fresh process?
		// If not, the violation depends on what the worker did before this run;
		// the replay file then says so and replays the batch prefix instead.
		if v.RaceReport == "" && len(v.Batch) > 0 {
			chk := fmt.Sprintf("%s/viol-%d-chk.json", scratch, i)
			_, err := run("", append(os.Environ(), "GOMAXPROCS=1"), wbin, "replay", "-file", final, "-out", chk, "-known", verifDir+"/known_findings.json")
			var rr struct {
				Reproduced bool `json:"reproduced"`
			}
			cb, _ := os.ReadFile(chk)
			_ = json.Unmarshal(cb, &rr)
			if err == nil && !rr.Reproduced {
				v.BatchHistory = true
				b, _ := json.MarshalIndent(v, "", " ")
				_ = os.WriteFile(raw, b, 0o644)
				final = raw
				fmt.Printf("note: %s of run %d does not reproduce from its workload alone (it depends on earlier workloads of the batch); the replay file re-executes the shard prefix\n", v.Class, v.Run)
			}
		}
		name := fmt.Sprintf("%s/replays/%s-%d-%d-%s.json", outDir, prop, seed, v.Run, sanitize(v.Class))
		copyFile(final, name)
		replayFiles = append(replayFiles, name)
	}

	wall := time.Since(start).Seconds()
	writeEvidence(prop, tier, seed, spec, agg, info, wall, buildS, runS, len(replayFiles))

	knownIDs := make([]string, 0, len(agg.KnownHits))
	for k := range agg.KnownHits {
		knownIDs = append(knownIDs, k)
	}
	sort.Strings(knownIDs)
	for _, k := range knownIDs {
		fmt.Printf("KNOWN-FINDING: property=%s %s hits=%d e.g. %s\n", prop, k, agg.KnownHits[k], oneLine(agg.KnownExamples[k]))
	}
	fmt.Printf("%s %s seed=%d: %d workloads, %d simulated runs, %d distinct nontrivial schedules, %d violations, %.1fs (build %.1fs, run %.1fs)\n",
		prop, tier, seed, agg.Workloads, agg.Evaluations, len(agg.fp), len(agg.Violations), wall, buildS, runS)
	if len(replayFiles) > 0 {
		for _, f := range replayFiles {
			fmt.Printf("VIOLATION property=%s replay=%s\n", prop, f)
		}
		for k, c := range agg.ViolationCnt {
			fmt.Printf("  %s: %d\n", k, c)
		}
		return 1
	}
	// reach checks: a fault kind the property depends on stuck at zero is a
	// defect of the check, not a pass
	// (On the unchanged tree every listed kind fires - see the evidence. A
	// modified tree may legitimately have nothing left for a kind to act on,
	// e.g. no map range in the printer any more, so this is reported, recorded
	// in the evidence and not turned into a failure.)
	for _, kind := range spec.mustHit {
		if agg.Faults[kind] == 0 {
			fmt.Printf("WARNING: fault kind %s never fired in this batch (nothing for it to act on in this tree?)\n", kind)
		}
	}
	if agg.RerunDiv > 0 {
		// The event log of a run is not a function of (workload, tape): some
		// source of nondeterminism lies outside the seams (sync.Pool, a
		// goroutine started by the library, ...). Results that differ are
		// reported by the oracles themselves; a differing event log alone is not
		// a violation of any property, so it is reported and recorded, and
		// replay files of this batch may not reproduce exactly.
		fmt.Printf("WARNING: identical-tape re-execution diverged %d times out of %d: a source of nondeterminism lies outside the seams (see uncontrolled_sources in the evidence)\n", agg.RerunDiv, agg.RerunN)
	}
	return 0
}

func neverFired(spec *propSpec, agg *aggregate) []string {
	out := []string{}
	for _, k := range spec.mustHit {
		if agg.Faults[k] == 0 {
			out = append(out, k)
		}
	}
	return out
}

func sanitize(s string) string {
	return strings.Map(func(r rune) rune {
		if r >= 'a' && r <= 'z' || r >= 'A' && r <= 'Z' || r >= '0' && r <= '9' || r == '-' || r == '_' {
			return r
		}
		return '_'
	}, s)
}

func oneLine(s string) string {
	s = strings.ReplaceAll(s, "\n", " ")
	if len(s) > 240 {
		s = s[:240] + "..."
	}
	return s
}

func cmdReplay(file string) int {
	data, err := os.ReadFile(file)
	if err != nil {
		fatal2("%v", err)
	}
	var v Violation
	if err := json.Unmarshal(data, &v); err != nil {
		fatal2("bad replay file: %v", err)
	}
	prepare()
	defer cleanup()
	bin := buildWorker(v.RaceReport != "")
	out := scratch + "/replay-out.json"
	o, err := run("", append(os.Environ(), "GOMAXPROCS=1", "GORACE=log_path="+scratch+"/race-replay halt_on_error=0 exitcode=0 atexit_sleep_ms=0 history_size=4", "VERIF_RACELOG="+scratch+"/race-replay"), bin, "replay", "-file", file, "-out", out, "-known", verifDir+"/known_findings.json")
	if err != nil {
		fatal2("replay worker failed: %v\n%s", err, o)
	}
	rb, _ := os.ReadFile(out)
	var res struct {
		Reproduced  bool     `json:"reproduced"`
		Class       string   `json:"class"`
		Detail      string   `json:"detail"`
		Fingerprint string   `json:"fingerprint"`
		AllClasses  []string `json:"all_classes"`
	}
	if json.Unmarshal(rb, &res) != nil {
		fatal2("unreadable replay result")
	}
	if res.Reproduced {
		fmt.Printf("reproduced: %s: %s (fingerprint %s, recorded %s)\n", res.Class, res.Detail, res.Fingerprint, v.Fingerprint)
		fmt.Printf("VIOLATION property=%s replay=%s\n", v.Property, file)
		return 1
	}
	fmt.Printf("not reproduced on the current tree (classes seen: %v)\n", res.AllClasses)
	return 0
}

func writeEvidence(prop, tier string, seed uint64, spec *propSpec, agg *aggregate, info *prepInfo, wall, buildS, runS float64, nviol int) {
	samples := []any{}
	for _, s := range agg.Samples {
		samples = append(samples, s)
	}
	if len(samples) == 0 {
		samples = append(samples, map[string]string{"note": "no sample recorded"})
	}
	perHour := 0.0
	if runS > 0 {
		perHour = float64(agg.Evaluations) / runS * 3600
	}
	uncontrolled := info.InstrReport["uncontrolled_sources"]
	cov := map[string]any{
		"evaluations":                      agg.Evaluations,
		"distinct_nontrivial":              len(agg.fp),
		"rule":                             spec.rule,
		"samples":                          samples,
		"workloads":                        agg.Workloads,
		"distinct_workloads":               len(agg.keys),
		"simulated_runs_per_hour":          int64(perHour),
		"seeds":                            []uint64{seed},
		"sched_steps_total":                agg.Steps,
		"task_switches_total":              agg.Switches,
		"sim_clock_ms":                     agg.ClockMs,
		"ulids_issued":                     agg.ULIDs,
		"faults_fired":                     agg.Faults,
		"map_sites_seen":                   agg.SitesSeen,
		"map_sites_perturbed":              agg.SitesHit,
		"mix":                              agg.Mix,
		"probes":                           agg.Probes,
		"known_findings_hit":               agg.KnownHits,
		"violation_counts":                 agg.ViolationCnt,
		"rerun_sample":                     map[string]int{"n": agg.RerunN, "divergences": agg.RerunDiv},
		"uncontrolled_sources":             uncontrolled,
		"fault_kinds_expected_to_fire":     spec.mustHit,
		"fault_kinds_that_never_fired":     neverFired(spec, agg),
		"instrumentation":                  info.InstrReport["counts"],
		"repo_tree_hash":                   info.RepoTreeHash,
		"worker_shards":                    agg.shards,
		"stopped_by_wall_clock_cap":        agg.TimedOut,
		"build_s":                          buildS,
		"run_s":                            runS,
		"faults_not_injected_and_why":      "network, disk, allocation failure: the library performs no I/O (DESIGN.md §2). Timers, sleeps, context deadlines, sync.Cond, sync.Pool and 32/64-bit non-cryptographic hashes are behind seams (simulated discrete-event clock, simulated pool, weak-hash mode; DESIGN.md 13.12, 13.13) and their fault kinds fire only on a tree that uses them: the pinned tree does not",
		"hash_sites_behind_weak_hash_seam": hashSites,
		"worker_shards_in_weak_hash_mode":  weakShards(agg.shards),
		"distinct_interleaving_metric":     "FNV hash of the ordered seam event log (site, kind, choice, task) of each simulated run",
		"components": map[string]any{
			"real_instrumented": []string{"github.com/openfga/language/pkg/go/... (working tree of /repo + mechanically inserted seams)", "antlr4-go/antlr/v4 v4.13.1 (mutex.go replaced by a cooperative equivalent)", "gonum.org/v1/gonum/graph/... v0.16.0 (-tags safe; map ranges and map iterators order-controlled)"},
			"real":              []string{"google.golang.org/protobuf", "openfga/api/proto", "gopkg.in/yaml.v3", "hashicorp/go-multierror", "Go runtime and standard library"},
			"stub":              []string{"ulid.Make (simulated clock + entropy)", "Go map iteration order (seam)", "OS/Go scheduler's choice of which caller runs (seeded serialising scheduler)", "wall clock, timers and context deadlines (discrete-event clock; only reached on a tree that uses them)", "sync.Pool (simulated pool; only on a tree that uses it)", "which ready select case is taken, which sync.Cond waiter is woken (tape)"},
		},
	}
	if agg.Extra != nil {
		cov["extra"] = agg.Extra
	}
	ev := map[string]any{
		"property_id": prop,
		"tier":        tier,
		"seed":        int64(seed),
		"level":       "exploration",
		"coverage":    cov,
		"assumptions": spec.assume,
		"wall_s":      wall,
		"violations":  nviol,
	}
	_ = os.MkdirAll(outDir+"/evidence", 0o755)
	b, _ := json.MarshalIndent(ev, "", " ")
	if err := os.WriteFile(outDir+"/evidence/"+prop+".json", b, 0o644); err != nil {
		fatal2("write evidence: %v", err)
	}
}
