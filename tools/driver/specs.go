package main

func init() {
	wgAssume := []string{
		"the seams only produce behaviours the Go specification allows (sorted + permuted map order, unique but non monotone ULIDs)",
		"reference models of DESIGN.md §7 encode the property statement",
		"sampling, not enumeration: only the DFS-root rotations are complete per model",
	}
	specs["C04"] = &propSpec{engine: "wgsim", quickN: 16000, thorN: 400000, quickS: 60, thorS: 900,
		rule:    "one workload = one generated model; one evaluation = one Build of it under one schedule of the family {canonical, reverse-all, lastfirst-all, rotate-all-k and rotate-root-k for every k < #nodes, random tapes over all map sites + ULID clock faults}; distinct = distinct seam-event-log fingerprint; non-trivial = the model has a cycle or an intersection/exclusion AND at least one fault fired in the run",
		mustHit: []string{"map.rotate", "map.reverse", "map.shuffle"}, assume: wgAssume}
	specs["C05"] = &propSpec{engine: "wgsim", quickN: 16000, thorN: 400000, quickS: 60, thorS: 900,
		rule: specs["C04"].rule, mustHit: []string{"map.rotate", "map.reverse", "map.shuffle"}, assume: wgAssume}
	specs["C06"] = &propSpec{engine: "wgsim", quickN: 16000, thorN: 400000, quickS: 60, thorS: 900,
		rule:    specs["C04"].rule + "; plus permuted type definitions, permuted commutative operands, and 2-3 concurrent builder tasks under seeded preemption",
		mustHit: []string{"map.rotate", "map.reverse", "map.shuffle", "deliver.permute", "preempt"}, assume: wgAssume}
	specs["C10"] = &propSpec{engine: "wgsim", quickN: 16000, thorN: 400000, quickS: 60, thorS: 900,
		rule: specs["C04"].rule, mustHit: []string{"map.rotate", "clock.back", "clock.stall"}, assume: wgAssume}
	specs["C11"] = &propSpec{engine: "wgsim", quickN: 16000, thorN: 400000, quickS: 60, thorS: 900,
		rule: specs["C04"].rule, mustHit: []string{"map.rotate", "map.reverse", "map.shuffle"}, assume: wgAssume}
}

func init() {
	specs["C17"] = &propSpec{engine: "plainsim", quickN: 5000, thorN: 120000, quickS: 60, thorS: 900,
		rule:    "one workload = one generated model (any rewrite shape, multi-line node pairs and computed-only cycles biased in); one evaluation = build + DOT + Reversed + Reversed twice + all-pairs PathExists + label lookup + GetCycles under one schedule over the gonum map iterators / map ranges and the ULID clock; distinct = distinct seam-event-log fingerprint; non-trivial = two lines join one node pair or the model has a cycle, AND at least one fault fired",
		mustHit: []string{"map.reverse", "map.rotate", "map.shuffle", "clock.back"},
		assume:  []string{"the gonum iterator overlay (sorted + permuted keys instead of reflect.MapIter) only produces orders the runtime may produce", "reference plain graph of DESIGN.md §7.7 encodes the statement", "edge conditions are not observable through the plain graph's API and are not compared"}}
}

func init() {
	mAssume := []string{
		"the expected outcome is computed from the generator's plan (worker/mergesim.go refMerge/deriveConflicts), which encodes the statement",
		"parse errors are not required to name their file (the statement only requires it for conflicts)",
		"two different files under one name are not generated (the statement is silent on them)",
	}
	rule := "one workload = one generated module set (1-4 modules, <= 8 files, extensions, 0-3 injected conflicts, delivery order possibly with one file twice); one evaluation = one TransformModuleFilesToModel call under one schedule over the six merger map sites (canonical, reverse, last-first, rotations of every site and of the extension site, random tapes), plus cold/warm parser history, permuted delivery orders and 2-3 concurrent merges under seeded preemption; distinct = distinct seam-event-log fingerprint; non-trivial = >= 2 extension blocks or >= 1 conflict, AND at least one fault fired"
	specs["C07"] = &propSpec{engine: "mergesim", quickN: 8000, thorN: 160000, quickS: 60, thorS: 900, rule: rule,
		mustHit: []string{"map.reverse", "map.rotate", "map.shuffle", "deliver.permute"}, assume: mAssume}
	specs["C12"] = &propSpec{engine: "mergesim", quickN: 8000, thorN: 160000, quickS: 60, thorS: 900, rule: rule,
		mustHit: []string{"map.reverse", "map.rotate", "map.shuffle", "deliver.permute", "restart.cold", "history.warm", "preempt"}, assume: mAssume}
}

func init() {
	specs["C13"] = &propSpec{engine: "puresim", race: true, quickN: 4000, thorN: 80000, quickS: 70, thorS: 900,
		rule:    "one workload = an input pool (generated models as DSL/JSON/shared proto, mutated and truncated DSL, module sets, fga.mod texts, validator strings), an optional warm-up history, an optional cold restart of the parser caches, and 1-4 simulated caller tasks with 1-5 public API calls each, some on one shared input object; one evaluation = that workload executed under one seeded schedule (preemption at ~900 yield points and every ANTLR lock, lock contention, map-order and ULID-clock faults), every result compared with the sequential cold reference computed afterwards, every input compared with its deep copy; every 40th (thorough: 10th) workload also executes its first call as the very first operation of a fresh OS process (restart.process) and compares; a sixth as many further workloads run in a -race build under the race-detector-invisible scheduler; distinct = distinct seam-event-log fingerprint; non-trivial = more than one task, or a warm history, or a cold restart, AND at least one fault fired",
		mustHit: []string{"preempt", "lock.contend", "restart.cold", "history.warm", "restart.process"},
		assume:  []string{"the stateless sequential specification out = f(in): a concurrent history is linearizable iff every completed call returned the sequential reference value (no search needed)", "interleavings are explored at inserted yield points (function entries, loop iterations, lock acquisitions); the race detector needs no physical overlap", "for the weighted graph only the verdict and the graph are compared, not which of several applicable sentinel errors is returned"}}
}

func init() {
	specs["C14"] = &propSpec{engine: "rendersim", quickN: 6000, thorN: 120000, quickS: 60, thorS: 900,
		rule:    "one workload = one generated model (DSL expressible; conditions with several parameters; for ~2/3 modular attribution of types, relations and conditions with ties and unattributed items), rendered with and without source information; one evaluation = one TransformJSONProtoToDSL / TransformJSONStringToDSL call under one schedule over the printer's three map sites (canonical, reverse, last-first, rotations, random tapes), or on a JSON re-encoding with shuffled object keys, or with permuted type definitions (modular models), or repeated; distinct = distinct seam-event-log fingerprint; non-trivial = at least one fault fired",
		mustHit: []string{"map.reverse", "map.rotate", "map.shuffle", "deliver.permute", "history.warm"},
		assume:  []string{"the documented order (worker/rendersim.go expectedOrder) encodes the statement: relations by name, or (module, file, name) with unattributed first for modular models; conditions likewise; parameters by name", "models are rendered from the harness's own proto builder (This as a non-empty oneof)"}}
}
