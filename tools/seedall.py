#!/usr/bin/env python3
"""Re-confirms every seeded change under /verif/seeded/<id>/ against /repo HEAD
in a scratch worktree (patch applies, compiles, unedited suite passes, demo
fails with it and passes without it) and runs the listed quick checks against
the patched worktree. Writes the outcome into each meta.json ("last_run") and a
summary table to stdout.  usage: tools/seedall.py [id-substring ...]"""
import json, os, re, subprocess, sys, glob
ROOT = os.path.dirname(os.path.dirname(os.path.abspath(__file__)))
want = sys.argv[1:]
rows = []
for d in sorted(glob.glob(os.path.join(ROOT, "seeded", "*"))):
    sid = os.path.basename(d)
    if want and not any(w in sid for w in want):
        continue
    meta = json.load(open(os.path.join(d, "meta.json")))
    env = dict(os.environ, DEMO_FLAGS=meta.get("demo_flags", ""), DEMO_DIR=meta.get("demo_dir", ""), DEMO_RUN=meta.get("demo_run", "."))
    prev = meta.get("last_run") or {}
    fast = bool(os.environ.get("FAST")) and prev.get("demo_confirmed") and prev.get("suite_with_patch") == "PASSES"
    if fast:
        env["SKIP_CONFIRM"] = "1"
    props = meta["checks_expected_to_catch"]
    p = subprocess.run([os.path.join(ROOT, "tools/seedcheck.sh"), d] + props, env=env, stdout=subprocess.PIPE, stderr=subprocess.STDOUT, text=True)
    out = p.stdout
    ok_demo = "demo without patch: PASS (ok)" in out and "demo with patch: FAIL (ok)" in out
    suite = "PASSES" if "suite with patch: PASSES" in out else "FAILS"
    if fast and "confirmation skipped" in out:
        ok_demo, suite = True, "PASSES"  # as confirmed by the earlier run
    caught = {}
    for m in re.finditer(r"check (C\d+): exit (\d+) (\d+) violation lines; (.*)", out):
        caught[m.group(1)] = {"exit": int(m.group(2)), "classes": m.group(4).strip()[:300]}
    meta["last_run"] = {"demo_confirmed": ok_demo, "suite_with_patch": suite, "checks": caught}
    json.dump(meta, open(os.path.join(d, "meta.json"), "w"), indent=1)
    status = " ".join(f"{k}:{'CAUGHT' if v['exit']==1 else 'missed('+str(v['exit'])+')'}" for k, v in caught.items())
    rows.append((sid, ok_demo, suite, status))
    print(f"{sid:8s} demo={'ok' if ok_demo else 'NOT CONFIRMED'} suite={suite} {status}", flush=True)
bad = [r for r in rows if not r[1] or "missed" in r[3] or r[2] != "PASSES"]
print(f"{len(rows)-len(bad)} of {len(rows)} confirmed and caught")
sys.exit(1 if bad else 0)
