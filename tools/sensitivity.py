#!/usr/bin/env python3
"""Sensitivity proof (DESIGN.md §5): a standing list of deliberate breakages.

Each one is applied to a scratch git worktree of /repo (never to /repo
itself), the quick tier of the named property is pointed at it
(VERIF_REPO / VERIF_OUT), and must exit 1 with a VIOLATION line. Reverting
one of the fix: commits is a breakage too (it shows the pinned behaviour
violates the property).

usage: tools/sensitivity.py [name-substring ...]     (no args = all)
"""
import json, os, re, shutil, subprocess, sys, tempfile, time

ROOT = os.path.dirname(os.path.dirname(os.path.abspath(__file__)))
REPO = os.environ.get("VERIF_REPO_SRC", "/repo")
ENV = dict(os.environ, GOFLAGS="-mod=mod", GOPROXY="off", GOSUMDB="off", GOTOOLCHAIN="local")

def sh(cmd, cwd=None, env=None, check=True):
    p = subprocess.run(cmd, shell=True, cwd=cwd, env=env or ENV, stdout=subprocess.PIPE, stderr=subprocess.STDOUT, text=True)
    if check and p.returncode != 0:
        raise RuntimeError(f"{cmd}\n{p.stdout}")
    return p

def edit(path, old, new, count=1):
    def f(wt):
        p = os.path.join(wt, path)
        s = open(p).read()
        if old not in s:
            raise RuntimeError(f"pattern not found in {path}: {old[:60]!r}")
        open(p, "w").write(s.replace(old, new, count))
    return f

def multi(*fns):
    def f(wt):
        for g in fns:
            g(wt)
    return f

def revert(grep):
    def f(wt):
        c = sh(f"git log --format=%H -1 --grep='{grep}'", cwd=wt).stdout.strip()
        if not c:
            raise RuntimeError("no commit matching " + grep)
        sh(f"git revert -n {c}", cwd=wt)
    return f

WG = "pkg/go/graph/weighted_graph.go"
MUTATIONS = [
    # --- reverts of the fix: commits (the pinned behaviour breaks the property)
    ("revert-operand-grouping", ["C05", "C04"], revert("evaluate direct assignments and tuple to usersets as one operand")),
    ("revert-rewrite-cycle-prepass", ["C05", "C06"], revert("detect tuple-free rewrite cycles")),
    ("revert-empty-weights", ["C05", "C04"], revert("reaches no terminal type through a tuple cycle")),
    ("revert-reversed-order", ["C17"], revert("make Reversed() of the authorization model graph deterministic")),
    ("revert-non-module-file", ["C07"], revert("without a module header")),
    ("revert-merge-map-order", ["C12"], revert("independent of map iteration order")),
    ("revert-type-and-extension", ["C07"], revert("do not treat the definition of a type as an extension")),
    ("revert-printer-sorts-input", ["C13"], revert("do not reorder the type definitions")),
    ("revert-wildcard-slice-aliasing", ["C11", "C06"], revert("do not share wildcard slices")),
    # --- deliberate breakages from DESIGN.md §5
    ("dependant-nodes-first-wins", ["C04"], edit(WG, "nodeWeights[key2] = int(math.Max(float64(nodeWeights[key2]), float64(value2)))", "_ = value2")),
    ("prepass-ignores-computed-edges", ["C05"], edit(WG, "if edge.edgeType != RewriteEdge && edge.edgeType != ComputedEdge {", "if edge.edgeType != RewriteEdge {")),
    ("no-constraint-tuple-cycle-error", ["C05"], edit(WG, "return tupleCycles, ErrContrainstTupleCycle", "return tupleCycles, wg.calculateNodeWeightWithMaxStrategy(nodeID)")),
    ("no-referential-wildcards-on-nodes", ["C11"], edit(WG, "wg.addReferentialWildcardsToNode(edge.from.uniqueLabel, nodeCycle)", "_ = nodeCycle")),
    ("edge-weight-no-hop-for-ttu", ["C04"], edit(WG, "if edge.edgeType == TTUEdge || edge.edgeType == DirectEdge {\n\t\tfor key, value := range edge.weights {", "if edge.edgeType == DirectEdge {\n\t\tfor key, value := range edge.weights {")),
    ("weighted-builder-sorts-input-in-place", ["C10", "C13"], edit("pkg/go/graph/weighted_graph_builder.go", "sortedTypeDefs := make([]*openfgav1.TypeDefinition, len(model.GetTypeDefinitions()))\n\tcopy(sortedTypeDefs, model.GetTypeDefinitions())", "sortedTypeDefs := model.GetTypeDefinitions()")),
    ("weighted-edges-not-deduplicated", ["C10"], edit(WG, "if edge.to.uniqueLabel == toNode.uniqueLabel && edge.edgeType == edgeType && edge.tuplesetRelation == tuplesetRelation {\n\t\t\tfor _, cond := range edge.conditions {", "if false && edge.to.uniqueLabel == toNode.uniqueLabel && edge.edgeType == edgeType && edge.tuplesetRelation == tuplesetRelation {\n\t\t\tfor _, cond := range edge.conditions {")),
    ("weighted-exclusion-subtract-first", ["C10"], edit("pkg/go/graph/weighted_graph_builder.go", "children = []*openfgav1.Userset{\n\t\t\trw.Difference.GetBase(),\n\t\t\trw.Difference.GetSubtract(),\n\t\t}", "children = []*openfgav1.Userset{\n\t\t\trw.Difference.GetSubtract(),\n\t\t\trw.Difference.GetBase(),\n\t\t}")),
    ("weighted-operator-label-from-clock-only", ["C10"], edit("pkg/go/graph/weighted_graph_builder.go", "operatorNodeName := operator + \":\" + ulid.Make().String()", "operatorNodeName := operator + \":\" + ulid.Make().String()[:10]")),
    ("plain-builder-relations-in-map-order", ["C17"], edit("pkg/go/graph/graph_builder.go", "slices.Sort(sortedRelations)\n\n\t\tfor _, relation := range sortedRelations {\n\t\t\tuniqueLabel := fmt.Sprintf", "for _, relation := range sortedRelations {\n\t\t\tuniqueLabel := fmt.Sprintf")),
    ("parse-memoised-by-length", ["C13"], edit("pkg/go/transformer/dsltojson.go", "func ParseDSL(data string) (*OpenFgaDslListener, *OpenFgaDslErrorListener) {\n", "var parseMemo = map[int]*OpenFgaDslListener{}\n\nfunc ParseDSL(data string) (*OpenFgaDslListener, *OpenFgaDslErrorListener) {\n\tif l, ok := parseMemo[len(data)]; ok && len(data) > 200 {\n\t\treturn l, newOpenFgaDslErrorListener()\n\t}\n\tl, e := parseDSLUncached(data)\n\tif e.Errors == nil {\n\t\tparseMemo[len(data)] = l\n\t}\n\treturn l, e\n}\n\nfunc parseDSLUncached(data string) (*OpenFgaDslListener, *OpenFgaDslErrorListener) {\n")),
    ("package-level-direct-assignment-validator", ["C13"], multi(
        edit("pkg/go/transformer/jsontodsl.go", "\tvalidator := DirectAssignmentValidator{\n\t\toccurred: 0,\n\t}\n", "\tsharedValidator.occurred = 0\n\tvalidator := &sharedValidator\n"),
        edit("pkg/go/transformer/jsontodsl.go", "parseFn(typeName, relationName, relationDefinition, typeRestrictions, &validator)", "parseFn(typeName, relationName, relationDefinition, typeRestrictions, validator)"),
        edit("pkg/go/transformer/jsontodsl.go", "type DirectAssignmentValidator struct {", "var sharedValidator DirectAssignmentValidator\n\ntype DirectAssignmentValidator struct {"))),
    ("parser-init-without-once", ["C13"], edit("pkg/go/gen/openfga_parser.go", "staticData.once.Do(openfgaparserParserInit)", "if staticData.atn == nil {\n    openfgaparserParserInit()\n  }")),
    ("condition-parameters-unsorted", ["C14"], edit("pkg/go/transformer/jsontodsl.go", "\tsort.Strings(parameterNames)\n", "")),
    ("sort-by-module-without-name-tiebreak", ["C14"], edit("pkg/go/transformer/jsontodsl.go", "\t} else if aFile != bFile {\n\t\treturn cmp.Compare(aFile, bFile)\n\t}\n\n\treturn cmp.Compare(aName, bName)", "\t} else if aFile != bFile {\n\t\treturn cmp.Compare(aFile, bFile)\n\t}\n\n\treturn 0")),
    ("merge-loses-extension-relation-attribution", ["C07"], edit("pkg/go/transformer/module-to-model.go", "\t\t\t\trelationsMeta.SourceInfo = &openfgav1.SourceInfo{\n\t\t\t\t\tFile: filename,\n\t\t\t\t}\n", "")),
    # the printer returns an unsafe string over a pooled buffer: correct when returned, clobbered by the next call
    ("printer-unsafe-string-over-pooled-buffer", ["C13", "C14"], multi(
        edit("pkg/go/transformer/jsontodsl.go", "\treturn fmt.Sprintf(`model\n  schema %v\n%v%v`, schemaVersion, typeDefsString, parsedConditionsString), nil\n}",
             "\tbuf, _ := dslBuffers.Get().(*[]byte)\n\t*buf = fmt.Appendf((*buf)[:0], `model\n  schema %v\n%v%v`, schemaVersion, typeDefsString, parsedConditionsString)\n\tout := unsafe.String(unsafe.SliceData(*buf), len(*buf))\n\tdslBuffers.Put(buf)\n\n\treturn out, nil\n}\n\nvar dslBuffers = sync.Pool{New: func() any { b := make([]byte, 0, 4096); return &b }}"),
        edit("pkg/go/transformer/jsontodsl.go", "import (", "import (\n\t\"sync\"\n\t\"unsafe\""))),
]

def main():
    want = sys.argv[1:]
    out_dir = tempfile.mkdtemp(prefix="verif-sens-out-")
    results = []
    for name, props, apply in MUTATIONS:
        if want and not any(w in name for w in want):
            continue
        wt = tempfile.mkdtemp(prefix="verif-sens-wt-")
        os.rmdir(wt)
        try:
            sh(f"git -C {REPO} worktree add --detach {wt} HEAD")
            apply(wt)
            build = sh("go build ./... ", cwd=os.path.join(wt, "pkg/go"), check=False)
            if build.returncode != 0:
                results.append((name, "-", "DOES NOT COMPILE", build.stdout[-300:]))
                continue
            tests = sh("go test -vet=off -count=1 ./... 2>&1 | tail -8", cwd=os.path.join(wt, "pkg/go"), check=False)
            suite = "suite passes" if "FAIL" not in tests.stdout else "suite FAILS"
            for prop in props:
                t0 = time.time()
                env = dict(ENV, VERIF_REPO=wt, VERIF_OUT=out_dir)
                p = sh(f"{ROOT}/check {prop} quick", cwd=ROOT, env=env, check=False)
                viol = [l for l in p.stdout.splitlines() if l.startswith("VIOLATION")]
                counts = [l.strip() for l in p.stdout.splitlines() if re.match(r"\s+C\d+/", l)]
                status = "CAUGHT" if p.returncode == 1 and viol else f"MISSED (exit {p.returncode})"
                results.append((name, prop, status, f"{suite}; {time.time()-t0:.0f}s; {'; '.join(counts[:4])}"))
                print(f"{name:48s} {prop} {status:18s} {suite}; {'; '.join(counts[:3])}", flush=True)
                if p.returncode == 2:
                    print(p.stdout[-1500:])
        except Exception as e:
            results.append((name, "-", "ERROR", str(e)[-400:]))
            print(f"{name:48s} ERROR {str(e)[-400:]}", flush=True)
        finally:
            sh(f"git -C {REPO} worktree remove --force {wt}", check=False)
            shutil.rmtree(wt, ignore_errors=True)
    shutil.rmtree(out_dir, ignore_errors=True)
    missed = [r for r in results if r[2] != "CAUGHT"]
    json.dump(results, open(os.path.join(ROOT, "sensitivity_last.json"), "w"), indent=1)
    print(f"\n{len(results) - len(missed)} caught, {len(missed)} not caught")
    sys.exit(1 if missed else 0)

if __name__ == "__main__":
    main()
