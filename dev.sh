#!/bin/bash
# dev helper: prepare a scratch build and run one worker shard, print a summary
export GOFLAGS=-mod=mod GOPROXY=off GOSUMDB=off GOTOOLCHAIN=local
ENGINE=$1; PROP=$2; N=${3:-300}; TIER=${4:-quick}
S=$(./bin/driver prepare | tail -1)
[ -d "$S" ] || { echo "prepare failed: $S"; exit 2; }
( cd $S && GOMAXPROCS=1 ./bin/worker run -engine $ENGINE -prop $PROP -n $N -tier $TIER -out $S/o.json -maxsecs 300 -known /verif/known_findings.json 2>$S/err.txt ) || tail -30 $S/err.txt
python3 - "$S/o.json" <<'PY'
import json,sys,collections
r=json.load(open(sys.argv[1]))
for k in ['workloads','evaluations','mix','violation_counts','known_hits','faults','probes','wall_s','rerun_n','rerun_divergences']: print(k, r.get(k))
print('fingerprints',len(r['fingerprints']))
seen=collections.Counter()
for v in (r['violations'] or []):
    key=(v['class'])
    seen[key]+=1
    if seen[key]<=int(__import__('os').environ.get('SHOW','2')):
        print('---',v['class'], '|', v['sched_name'],'| run',v['run']); print(v['detail']); print(v['describe'])
PY
echo scratch: $S
[ -n "$KEEP" ] || rm -rf $S
