package simrt

import (
	"sync"
	"unsafe"
)

// Cooperative forms of the blocking primitives. A simulated task must never
// block its goroutine in the Go runtime while it holds the turn (the other
// tasks are parked waiting for the turn, so nobody could ever release the
// lock): every blocking acquire becomes "yield; spin on TryLock, parking in
// the simulator between attempts". The real primitive is still the one that
// is acquired, so the race detector sees exactly the happens-before edges the
// code under test creates itself.

func MutexLock(m *sync.Mutex, site string) {
	Yield(site)
	for !m.TryLock() {
		Blocked(site)
	}
}

func MutexUnlock(m *sync.Mutex) {
	m.Unlock()
	Unlocked()
}

func RWMutexLock(m *sync.RWMutex, site string) {
	Yield(site)
	for !m.TryLock() {
		Blocked(site)
	}
}

func RWMutexUnlock(m *sync.RWMutex) {
	m.Unlock()
	Unlocked()
}

func RWMutexRLock(m *sync.RWMutex, site string) {
	Yield(site)
	for !m.TryRLock() {
		Blocked(site)
	}
}

func RWMutexRUnlock(m *sync.RWMutex) {
	m.RUnlock()
	Unlocked()
}

// OnceDo replaces (*sync.Once).Do: while one task is inside the initialiser
// (which contains yield points), other tasks arriving at the same Once park in
// the simulator instead of blocking on the Once's internal mutex. The real
// Once.Do is still what runs f and what every caller passes through.
func OnceDo(o *sync.Once, f func(), site string) {
	if !onceEnter(o, site) {
		o.Do(f)
		return
	}
	defer onceLeave(o)
	o.Do(f)
}

//go:norace
func (s *sim) onceSlot(key uintptr) *onceState {
	for i := range s.onceTab {
		if s.onceTab[i].key == key {
			return &s.onceTab[i]
		}
	}
	s.onceTab = append(s.onceTab, onceState{key: key})
	return &s.onceTab[len(s.onceTab)-1]
}

//go:norace
func onceEnter(o *sync.Once, site string) bool {
	s := cur
	if s == nil || s.tasks == nil || s.turn < 0 {
		return false
	}
	key := uintptr(unsafe.Pointer(o))
	Yield(site)
	for {
		st := s.onceSlot(key)
		if !st.running {
			st.running = true
			return true
		}
		Blocked(site)
	}
}

//go:norace
func onceLeave(o *sync.Once) {
	s := cur
	if s == nil {
		return
	}
	s.onceSlot(uintptr(unsafe.Pointer(o))).running = false
	s.unlockGen++
}

// Cooperative sync.WaitGroup (rewritten from Add/Done/Wait calls): a side
// counter tells Wait when it may call the real Wait without blocking; the real
// methods still run, so the Done -> Wait happens-before edges are the real ones.

//go:norace
func (s *sim) wgSlot(wg *sync.WaitGroup) *wgState {
	key := uintptr(unsafe.Pointer(wg))
	for i := range s.wgTab {
		if s.wgTab[i].key == key {
			return &s.wgTab[i]
		}
	}
	s.wgTab = append(s.wgTab, wgState{key: key})
	return &s.wgTab[len(s.wgTab)-1]
}

//go:norace
func wgCount(wg *sync.WaitGroup, delta int) (int, bool) {
	s := cur
	if s == nil {
		return 0, false
	}
	st := s.wgSlot(wg)
	st.n += delta
	if delta < 0 && st.n <= 0 {
		s.unlockGen++
	}
	return st.n, true
}

func WaitGroupAdd(wg *sync.WaitGroup, n int) {
	wgCount(wg, n)
	wg.Add(n)
}

func WaitGroupDone(wg *sync.WaitGroup) {
	wgCount(wg, -1)
	wg.Done()
}

func WaitGroupWait(wg *sync.WaitGroup, site string) {
	Yield(site)
	for {
		n, attached := wgCount(wg, 0)
		if !attached || n <= 0 || !inTask() {
			break
		}
		Blocked(site)
	}
	wg.Wait()
}

//go:norace
func inTask() bool {
	s := cur
	return s != nil && s.tasks != nil && s.turn >= 0
}
