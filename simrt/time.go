package simrt

import (
	"context"
	"runtime"
	"sync/atomic"
	"time"
	"unsafe"
)

// Discrete-event time. The simulated millisecond clock (the one MakeULID and
// Now read) is the only clock the code under test sees: time.Since / Until /
// Sleep / After / AfterFunc / NewTimer / NewTicker / Tick and
// context.WithTimeout / WithDeadline are rewritten to the functions below.
//
//   - the clock advances when it is read (one tick, or a tape-chosen stall or
//     jump), when a task sleeps alone, and - discrete-event style - when no task
//     is runnable but a sleeper or a timer is pending: the clock then jumps to
//     the earliest wake-up time, so a one-minute timeout costs nothing;
//   - with the ambient fault family on, a yield point may also let time pass up
//     to the next pending wake-up although other tasks could still run (a slow
//     task is always a legal schedule): that is how time-outs fire while the
//     work they guard is still in flight;
//   - a timer that fires sends on its (real, buffered) channel or starts its
//     function as a new simulated task. Both are done by a daemon goroutine the
//     driver started in Begin and that is handed the action through plain
//     memory, so that - as with the Go runtime's own timer goroutine - no
//     happens-before edge leads from the task that happened to advance the clock
//     to the receiver.

type timerState struct {
	key    uintptr // *time.Timer / *time.Ticker the code holds (0 for After)
	wake   int64
	period int64 // > 0: ticker
	ch     chan time.Time
	fn     func()
	active bool
	seq    int64
	rel    *atomic.Int32 // creation / Reset happens before the firing, as with the runtime's timers
}

var timerDaemonWanted bool

// EnableTimerDaemon is called from an init function the instrumenter adds to
// every file in which it rewrote a timer construct.
func EnableTimerDaemon() { timerDaemonWanted = true }

//go:norace
func timerDaemon(s *sim) {
	for !s.ended {
		if f := s.daemonReq; f != nil {
			f()
			s.daemonReq = nil
		}
		runtime.Gosched()
	}
}

// viaDaemon runs f on the daemon goroutine and waits for it (or runs it in
// place when no daemon exists).
//
//go:norace
func (s *sim) viaDaemon(f func()) {
	if !s.daemonOn {
		f()
		return
	}
	s.daemonReq = f
	for s.daemonReq != nil {
		runtime.Gosched()
	}
}

//go:norace
func durMs(d time.Duration) int64 {
	if d <= 0 {
		return 0
	}
	return int64((d + time.Millisecond - 1) / time.Millisecond)
}

//go:norace
func (s *sim) noteClock() {
	if s.ms < s.stats.ClockMin {
		s.stats.ClockMin = s.ms
	}
	if s.ms > s.stats.ClockMax {
		s.stats.ClockMax = s.ms
	}
}

// pendingWake returns the earliest wake-up time of an active timer or of a
// sleeping task.
//
//go:norace
func (s *sim) pendingWake() (int64, bool) {
	var best int64
	ok := false
	for i := range s.timers {
		t := &s.timers[i]
		if t.active && (!ok || t.wake < best) {
			best, ok = t.wake, true
		}
	}
	for i := range s.tasks {
		t := &s.tasks[i]
		if !t.done && t.sleepUntil != 0 && (!ok || t.sleepUntil < best) {
			best, ok = t.sleepUntil, true
		}
	}
	return best, ok
}

// idleAdvance lets simulated time pass up to the next pending wake-up and fires
// what is due. It reports whether anything was pending.
//
//go:norace
func (s *sim) idleAdvance(kind string) bool {
	next, ok := s.pendingWake()
	if !ok {
		return false
	}
	if next > s.ms {
		s.fault(kind)
		s.event("clock", kind, next-s.ms)
		s.ms = next
		s.noteClock()
	}
	s.fireDue()
	return true
}

// fireDue fires every active timer whose time has come, in (time, creation)
// order.
//
//go:norace
func (s *sim) fireDue() {
	if s.npending == 0 {
		return
	}
	for {
		best := -1
		for i := range s.timers {
			t := &s.timers[i]
			if !t.active || t.wake > s.ms {
				continue
			}
			if best < 0 || t.wake < s.timers[best].wake || (t.wake == s.timers[best].wake && t.seq < s.timers[best].seq) {
				best = i
			}
		}
		if best < 0 {
			return
		}
		t := &s.timers[best]
		at := t.wake
		if t.period > 0 {
			t.wake += t.period
			if s.ms-t.wake > 64*t.period { // a long jump: the ticks in between are dropped anyway
				t.wake = s.ms - (s.ms-t.wake)%t.period
			}
		} else {
			t.active = false
			s.npending--
		}
		s.fault("timer.fire")
		s.event("clock", "timer.fire", t.seq)
		rel := t.rel
		if t.ch != nil {
			ch := t.ch
			s.viaDaemon(func() {
				rel.Load() // acquire: pairs with the Store of whoever armed the timer
				select {
				case ch <- time.UnixMilli(at):
				default:
				}
			})
		}
		if t.fn != nil {
			s.spawn(t.fn, rel)
		}
		s.unlockGen++
	}
}

//go:norace
func (s *sim) addTimer(key uintptr, d time.Duration, period int64, ch chan time.Time, fn func()) {
	s.timerSeq++
	t := timerState{key: key, wake: s.ms + durMs(d), period: period, ch: ch, fn: fn, active: true, seq: s.timerSeq, rel: new(atomic.Int32)}
	t.rel.Store(1) // release
	for i := range s.timers {
		if !s.timers[i].active {
			s.timers[i] = t
			s.npending++
			return
		}
	}
	s.timers = append(s.timers, t)
	s.npending++
}

//go:norace
func (s *sim) findTimer(key uintptr) *timerState {
	for i := range s.timers {
		if s.timers[i].key == key && key != 0 {
			return &s.timers[i]
		}
	}
	return nil
}

// Since / Until replace time.Since / time.Until.
func Since(t time.Time, site string) time.Duration {
	if cur == nil {
		return time.Since(t)
	}
	return Now(site).Sub(t)
}

func Until(t time.Time, site string) time.Duration {
	if cur == nil {
		return time.Until(t)
	}
	return t.Sub(Now(site))
}

// Sleep replaces time.Sleep: the task is not runnable until the simulated
// clock has reached its wake-up time; other tasks run meanwhile, and when none
// can the clock jumps.
//
//go:norace
func Sleep(d time.Duration, site string) {
	s := cur
	if s == nil {
		time.Sleep(d)
		return
	}
	ms := durMs(d)
	if ms == 0 {
		Yield(site)
		return
	}
	s.fault("sleep")
	if s.tasks == nil || s.turn < 0 {
		// a single caller (or the driver): time just passes
		s.event(site, "sleep", ms)
		s.ms += ms
		s.noteClock()
		s.fireDue()
		return
	}
	id := s.turn
	t := &s.tasks[id]
	t.sleepUntil = s.ms + ms
	t.where = site
	s.event(site, "sleep", ms)
	for s.ms < t.sleepUntil {
		s.stats.Steps++
		if s.cfg.MaxSteps > 0 && s.stats.Steps > s.cfg.MaxSteps {
			s.stats.Overrun = true
			s.aborted = true
			s.stats.Aborted = true
			panic(abortSignal{})
		}
		r := s.runnable(id, false)
		if len(r) == 0 {
			s.idleAdvance("clock.idle_jump")
			continue
		}
		pick := int(s.draw(uint32(len(r))))
		s.stats.Switches++
		s.turn = r[pick]
		s.park(id)
	}
	t.sleepUntil = 0
}

// After replaces time.After.
//
//go:norace
func After(d time.Duration, site string) <-chan time.Time {
	s := cur
	if s == nil {
		return time.After(d)
	}
	ch := make(chan time.Time, 1)
	s.fault("timer.new")
	s.event(site, "timer.new", durMs(d))
	s.addTimer(0, d, 0, ch, nil)
	s.fireDue()
	return ch
}

// NewTimer replaces time.NewTimer. The returned value is a real *time.Timer as
// far as its C field goes; Stop and Reset calls on it are rewritten to
// TimerStop / TimerReset.
//
//go:norace
func NewTimer(d time.Duration, site string) *time.Timer {
	s := cur
	if s == nil {
		return time.NewTimer(d)
	}
	ch := make(chan time.Time, 1)
	t := &time.Timer{C: ch}
	s.fault("timer.new")
	s.event(site, "timer.new", durMs(d))
	s.addTimer(uintptr(unsafe.Pointer(t)), d, 0, ch, nil)
	s.keep = append(s.keep, t)
	s.fireDue()
	return t
}

// AfterFunc replaces time.AfterFunc: when the time has come f runs as a new
// simulated task.
//
//go:norace
func AfterFunc(d time.Duration, f func(), site string) *time.Timer {
	s := cur
	if s == nil {
		return time.AfterFunc(d, f)
	}
	t := &time.Timer{}
	s.fault("timer.new")
	s.event(site, "timer.func", durMs(d))
	s.addTimer(uintptr(unsafe.Pointer(t)), d, 0, nil, f)
	s.keep = append(s.keep, t)
	s.fireDue()
	return t
}

// TimerStop replaces (*time.Timer).Stop.
//
//go:norace
func TimerStop(t *time.Timer) bool {
	s := cur
	if s == nil {
		return t.Stop()
	}
	st := s.findTimer(uintptr(unsafe.Pointer(t)))
	if st == nil {
		return safeRealStop(t)
	}
	was := st.active
	if was {
		st.active = false
		s.npending--
	}
	// Go 1.23 semantics: no stale value is left in the channel after Stop
	if st.ch != nil {
		select {
		case <-st.ch:
		default:
		}
	}
	return was
}

// safeRealStop stops a timer the simulation does not know (created before it
// was attached).
func safeRealStop(t *time.Timer) (was bool) {
	defer func() { _ = recover() }()
	return t.Stop()
}

// TimerReset replaces (*time.Timer).Reset.
//
//go:norace
func TimerReset(t *time.Timer, d time.Duration) bool {
	s := cur
	if s == nil {
		return t.Reset(d)
	}
	st := s.findTimer(uintptr(unsafe.Pointer(t)))
	if st == nil {
		return false
	}
	was := st.active
	if st.ch != nil {
		select {
		case <-st.ch:
		default:
		}
	}
	if !was {
		st.active = true
		s.npending++
	}
	s.timerSeq++
	st.seq = s.timerSeq
	st.wake = s.ms + durMs(d)
	st.rel.Store(1) // release
	s.fireDue()
	return was
}

// NewTicker / Tick / TickerStop / TickerReset replace the ticker API.
//
//go:norace
func NewTicker(d time.Duration, site string) *time.Ticker {
	s := cur
	if s == nil {
		return time.NewTicker(d)
	}
	if d <= 0 {
		panic("non-positive interval for NewTicker")
	}
	ch := make(chan time.Time, 1)
	t := &time.Ticker{C: ch}
	s.fault("timer.new")
	s.event(site, "ticker.new", durMs(d))
	p := durMs(d)
	s.addTimer(uintptr(unsafe.Pointer(t)), d, p, ch, nil)
	s.keep = append(s.keep, t)
	return t
}

func Tick(d time.Duration, site string) <-chan time.Time {
	if d <= 0 {
		return nil
	}
	return NewTicker(d, site).C
}

//go:norace
func TickerStop(t *time.Ticker) {
	s := cur
	if s == nil {
		t.Stop()
		return
	}
	if st := s.findTimer(uintptr(unsafe.Pointer(t))); st != nil && st.active {
		st.active = false
		s.npending--
	}
}

//go:norace
func TickerReset(t *time.Ticker, d time.Duration) {
	s := cur
	if s == nil {
		t.Reset(d)
		return
	}
	if st := s.findTimer(uintptr(unsafe.Pointer(t))); st != nil {
		if !st.active {
			st.active = true
			s.npending++
		}
		st.period = durMs(d)
		st.wake = s.ms + st.period
	}
}

// deadlineCtx is what ContextWithDeadline returns: a cancel context of the
// standard library (so that children attach to it without helper goroutines)
// whose deadline lives on the simulated clock.
type deadlineCtx struct {
	context.Context
	dl time.Time
}

func (c *deadlineCtx) Deadline() (time.Time, bool) {
	if pd, ok := c.Context.Deadline(); ok && pd.Before(c.dl) {
		return pd, true
	}
	return c.dl, true
}

func (c *deadlineCtx) Err() error {
	e := c.Context.Err()
	if e != nil && context.Cause(c.Context) == context.DeadlineExceeded {
		return context.DeadlineExceeded
	}
	return e
}

// ContextWithTimeout / ContextWithDeadline replace context.WithTimeout /
// context.WithDeadline.
func ContextWithTimeout(parent context.Context, d time.Duration, site string) (context.Context, context.CancelFunc) {
	if cur == nil {
		return context.WithTimeout(parent, d)
	}
	return ContextWithDeadline(parent, Now(site).Add(d), site)
}

func ContextWithDeadline(parent context.Context, dl time.Time, site string) (context.Context, context.CancelFunc) {
	if cur == nil {
		return context.WithDeadline(parent, dl)
	}
	inner, cancel := context.WithCancelCause(parent)
	c := &deadlineCtx{Context: inner, dl: dl}
	d := dl.Sub(time.UnixMilli(nowMs()))
	if d <= 0 {
		cancel(context.DeadlineExceeded)
		Unlocked()
		return c, func() { cancel(context.Canceled); Unlocked() }
	}
	t := AfterFunc(d, func() {
		cancel(context.DeadlineExceeded)
		Unlocked()
	}, site)
	return c, func() {
		TimerStop(t)
		cancel(context.Canceled)
		Unlocked()
	}
}

//go:norace
func nowMs() int64 {
	if s := cur; s != nil {
		return s.ms
	}
	return time.Now().UnixMilli()
}

// CallCancel / CallCancelCause replace calls of context.CancelFunc /
// CancelCauseFunc values: cancelling closes a channel tasks may be parked on.
func CallCancel(f context.CancelFunc) {
	f()
	Unlocked()
}

func CallCancelCause(f context.CancelCauseFunc, cause error) {
	f(cause)
	Unlocked()
}

// Gosched replaces runtime.Gosched(): some other runnable task runs, if there is one.
//
//go:norace
func Gosched(site string) {
	s := cur
	if s == nil || s.tasks == nil || s.turn < 0 {
		runtime.Gosched()
		return
	}
	id := s.turn
	s.stats.Steps++
	if s.cfg.MaxSteps > 0 && s.stats.Steps > s.cfg.MaxSteps {
		s.stats.Overrun = true
		s.aborted = true
		s.stats.Aborted = true
		panic(abortSignal{})
	}
	r := s.runnable(id, false)
	if len(r) == 0 && s.npending > 0 {
		// a spin loop with nobody else to run: time passes
		s.idleAdvance("clock.idle_jump")
		r = s.runnable(id, false)
	}
	if len(r) == 0 {
		return
	}
	pick := int(s.draw(uint32(len(r))))
	s.fault("gosched")
	s.event(site, "gosched", int64(r[pick]))
	s.stats.Switches++
	s.turn = r[pick]
	s.park(id)
}
