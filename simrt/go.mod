module verifsim/simrt

go 1.23.0

require github.com/oklog/ulid/v2 v2.1.0
