package simrt

import (
	"cmp"
	"iter"
	"slices"
)

// RangeMap is what `for k, v := range m` is rewritten to: the keys are
// snapshotted and sorted (canonical order), then visited in the order chosen
// by the simulator for this (site, occurrence). Keys deleted during the loop
// are skipped and keys inserted during the loop are not visited - both are
// behaviours the Go specification allows for a map range, so the seam only
// produces orders the real runtime may produce.
//
// Deliberately NOT //go:norace: it reads the caller's map, and a task ranging
// over a shared map while another writes it must still be reported.
func RangeMap[M ~map[K]V, K cmp.Ordered, V any](m M, site string) iter.Seq2[K, V] {
	return func(yield func(K, V) bool) {
		n := len(m)
		if n == 0 {
			return
		}
		keys := make([]K, 0, n)
		for k := range m {
			keys = append(keys, k)
		}
		slices.Sort(keys)
		perm := order(site, len(keys))
		for i := range keys {
			j := i
			if perm != nil {
				j = perm[i]
			}
			k := keys[j]
			v, ok := m[k]
			if !ok {
				continue
			}
			if !yield(k, v) {
				return
			}
		}
	}
}

// RangeMapKeys is the one-variable form (`for k := range m`).
func RangeMapKeys[M ~map[K]V, K cmp.Ordered, V any](m M, site string) iter.Seq[K] {
	return func(yield func(K) bool) {
		for k := range RangeMap(m, site) {
			if !yield(k) {
				return
			}
		}
	}
}

// RangeMapAny is used for key types without a total order: the order is left
// to the runtime and the site is reported as uncontrolled.
func RangeMapAny[M ~map[K]V, K comparable, V any](m M, site string) iter.Seq2[K, V] {
	return func(yield func(K, V) bool) {
		noteUncontrolled(site)
		for k, v := range m {
			if !yield(k, v) {
				return
			}
		}
	}
}

//go:norace
func noteUncontrolled(site string) {
	if s := cur; s != nil {
		s.faults.add("uncontrolled.map", 1)
		s.sitesSeen.add("UNCONTROLLED "+site, 1)
	}
}

// RangeMapValues is what maps.Values(m) is rewritten to.
func RangeMapValues[M ~map[K]V, K cmp.Ordered, V any](m M, site string) iter.Seq[V] {
	return func(yield func(V) bool) {
		for _, v := range RangeMap(m, site) {
			if !yield(v) {
				return
			}
		}
	}
}

// MapKeysSlice / MapValuesSlice replace golang.org/x/exp/maps.Keys / Values
// (which return slices in unspecified order).
func MapKeysSlice[M ~map[K]V, K cmp.Ordered, V any](m M, site string) []K {
	out := make([]K, 0, len(m))
	for k := range RangeMap(m, site) {
		out = append(out, k)
	}
	return out
}

func MapValuesSlice[M ~map[K]V, K cmp.Ordered, V any](m M, site string) []V {
	out := make([]V, 0, len(m))
	for _, v := range RangeMap(m, site) {
		out = append(out, v)
	}
	return out
}
