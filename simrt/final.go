package simrt

import (
	"reflect"
	"runtime"
	"sync"
	"sync/atomic"
)

// Finalizers. The Go runtime runs finalizers on a goroutine of its own, at a
// time of its choosing: library code on a goroutine the simulator knows nothing
// about, calling the seams concurrently with the simulated tasks (the first
// change that used runtime.SetFinalizer crashed the workers inside the
// simulator's bookkeeping). runtime.SetFinalizer calls are therefore rewritten
// to SetFinalizer below: the runtime still decides WHEN an object is
// unreachable (only it can), but its goroutine merely queues the finalizer;
// the function itself runs where everything else runs - as a new simulated
// task at the next yield point of a simulation, or on the driver goroutine
// between simulations (Begin, End, RunPendingFinalizers).

var (
	finMu      sync.Mutex
	finQueue   []func()
	finPending atomic.Int32
)

// SetFinalizer replaces runtime.SetFinalizer.
func SetFinalizer(obj any, finalizer any, site string) {
	if finalizer == nil {
		runtime.SetFinalizer(obj, nil)
		return
	}
	fv := reflect.ValueOf(finalizer)
	if fv.Kind() != reflect.Func {
		runtime.SetFinalizer(obj, finalizer) // let the runtime complain
		return
	}
	wrapper := reflect.MakeFunc(fv.Type(), func(args []reflect.Value) []reflect.Value {
		finMu.Lock()
		finQueue = append(finQueue, func() { fv.Call(args) })
		finPending.Store(int32(len(finQueue)))
		finMu.Unlock()
		out := make([]reflect.Value, fv.Type().NumOut())
		for i := range out {
			out[i] = reflect.Zero(fv.Type().Out(i))
		}
		return out
	})
	runtime.SetFinalizer(obj, wrapper.Interface())
}

// takeFinalizers removes up to max queued finalizers (max <= 0: all).
func takeFinalizers(max int) []func() {
	if finPending.Load() == 0 {
		return nil
	}
	finMu.Lock()
	n := len(finQueue)
	if max > 0 && n > max {
		n = max
	}
	q := append([]func(){}, finQueue[:n]...)
	finQueue = append(finQueue[:0], finQueue[n:]...)
	finPending.Store(int32(len(finQueue)))
	finMu.Unlock()
	return q
}

// RunPendingFinalizers runs the queued finalizers on the calling goroutine.
// For the driver, between simulations.
func RunPendingFinalizers() int {
	q := takeFinalizers(0)
	for _, f := range q {
		runFinalizer(f)
	}
	return len(q)
}

func runFinalizer(f func()) {
	defer func() { _ = recover() }() // a panicking finalizer would kill a real process; here it must not kill the batch silently either
	f()
}

// spawnPendingFinalizers is called at yield points of a simulation: every
// queued finalizer becomes a simulated task (the runtime would run it on
// another goroutine at about this time).
//
//go:norace
func (s *sim) spawnPendingFinalizers() {
	// a few at a time: each becomes a task (the task table is bounded), the
	// others wait for the next yield points or for the end of the simulation
	q := takeFinalizers(4)
	for _, f := range q {
		f := f
		s.fault("finalizer.run")
		s.event("gc", "finalizer.run", 0)
		s.spawn(func() { runFinalizer(f) }, nil)
	}
}
