package simrt

import (
	"os"
	"strconv"
)

// Weak hashes: a cooperative fault point for code that hashes. A 32- or 64-bit
// non-cryptographic hash (hash/fnv, hash/crc32, hash/crc64, hash/adler32,
// hash/maphash, or a hand-written FNV loop recognised by its prime) has
// colliding inputs - they exist by counting, and for these functions they can
// be constructed at will - but a random workload meets one with probability
// 2^-32 per pair. Code that is correct for every input must not care: it may
// use the hash to pick a bucket, never as the identity of the input. The
// instrumenter routes the result of every such hash through Weak32 / Weak64 and
// the prime of a hand-written FNV loop through WeakPrime32 / WeakPrime64; in a
// worker process started with VERIF_WEAKHASH=<bits> only the low <bits> bits of
// a hash survive (bits < 8: a hand-written FNV multiplies by 0, i.e. every
// string hashes alike; otherwise by 1, i.e. to the XOR of its bytes), so that
// collisions happen between the names and files a workload really contains.
//
// The mode is fixed for the life of the process (a hash function has to be a
// function: the same input must hash alike in every call of the process, or
// correct code - an interning table - would break), it is part of the position
// of a run in its batch and therefore of every replay file.

var weakBits = func() uint {
	n, _ := strconv.Atoi(os.Getenv("VERIF_WEAKHASH"))
	if n < 0 || n > 63 {
		n = 0
	}
	return uint(n)
}()

// SetWeakHash fixes the mode (replay: the mode recorded in the replay file).
// Must be called before any code under test runs.
func SetWeakHash(bits int) {
	if bits < 0 || bits > 63 {
		bits = 0
	}
	weakBits = uint(bits)
	_ = os.Setenv("VERIF_WEAKHASH", strconv.Itoa(bits)) // child processes (fresh-process references)
}

// WeakHashBits returns the mode of this process (0 = hashes untouched).
func WeakHashBits() int { return int(weakBits) }

//go:norace
func noteWeak(site string) {
	if s := cur; s != nil {
		s.fault("hash.weak")
	}
}

// The surviving bits are taken from a re-mixed value, not from the hash itself:
// the low k bits of FNV-1a depend only on the low k bits of the bytes hashed
// (xor and multiplication by an odd prime never carry downwards), so two texts
// that differ in one character - the near-duplicates a workload is full of -
// would never collide in them.
func Weak32(h uint32, site string) uint32 {
	if weakBits == 0 || weakBits >= 32 {
		return h
	}
	noteWeak(site)
	x := uint64(h)
	return uint32(splitmix(&x)) & (1<<weakBits - 1)
}

func Weak64(h uint64, site string) uint64 {
	if weakBits == 0 {
		return h
	}
	noteWeak(site)
	x := h
	return splitmix(&x) & (1<<weakBits - 1)
}

func WeakPrime32(site string) uint32 {
	switch {
	case weakBits == 0:
		return 16777619
	case weakBits < 8:
		noteWeak(site)
		return 0
	}
	noteWeak(site)
	return 1
}

func WeakPrime64(site string) uint64 {
	switch {
	case weakBits == 0:
		return 1099511628211
	case weakBits < 8:
		noteWeak(site)
		return 0
	}
	noteWeak(site)
	return 1
}
