// Self-test of the discrete-event clock (Sleep, After, AfterFunc, NewTimer,
// NewTicker, ContextWithTimeout), the cooperative sync.Cond, the simulated
// sync.Pool and the ordered sync.Map.Range: a few small concurrent programs
// under 3000 seeded schedules, each schedule executed twice (fingerprints must
// agree). usage: go run ./internal/timeselftest  (also with -race and with
// GOMAXPROCS=1/4).
package main

import (
	"context"
	"fmt"
	"os"
	"sync"
	"time"

	"verifsim/simrt"
)

type result struct {
	order   []int
	timeout bool
	ticks   int
	sum     int
	ctxErr  error
	fired   int
	keys    string
}

func scenario(seed uint64) result {
	var res result
	var mu sync.Mutex
	var wg sync.WaitGroup
	start := simrt.Now("start")

	// 1. sleepers wake in the order of their wake-up times
	for i, d := range []int{30, 10, 20} {
		simrt.WaitGroupAdd(&wg, 1)
		simrt.Go(func() {
			defer simrt.WaitGroupDone(&wg)
			simrt.Sleep(time.Duration(d)*time.Millisecond, "sleep")
			simrt.MutexLock(&mu, "mu")
			res.order = append(res.order, i)
			simrt.MutexUnlock(&mu)
		})
	}
	simrt.WaitGroupWait(&wg, "wait sleepers")

	// 2. a time-out racing with slow work
	done := make(chan int, 1)
	simrt.Go(func() {
		for k := 0; k < int(seed%40); k++ {
			simrt.Yield("work")
		}
		simrt.ChanSend(done, 7, "send done")
	})
	to := simrt.After(5*time.Millisecond, "after")
	// a select as the instrumenter rewrites it: cases attempted one at a time,
	// in tape order, the others masked with nil
	var c0 <-chan int = done
	c1 := to
	m0, m1 := c0, c1
	k := 0
	ord := simrt.SelectOrder(2, "select")
sel:
	m0, m1 = c0, c1
	if ord[k] != 0 {
		m0 = nil
	}
	if ord[k] != 1 {
		m1 = nil
	}
	select {
	case <-m0:
		simrt.Unlocked()
	case <-m1:
		simrt.Unlocked()
		res.timeout = true
	default:
		k++
		if k < 2 {
			goto sel
		}
		k = 0
		simrt.SelectBlocked("select")
		goto sel
	}
	if res.timeout {
		if seed%3 == 0 && simrt.Since(start, "since") < 5*time.Millisecond { // monotone clock only
			fmt.Println("timeout fired before its time")
			os.Exit(1)
		}
		simrt.ChanRecv(done, "drain")
	}

	// 3. AfterFunc: one runs, one is stopped in time
	simrt.WaitGroupAdd(&wg, 1)
	simrt.AfterFunc(3*time.Millisecond, func() {
		simrt.MutexLock(&mu, "mu")
		res.fired++
		simrt.MutexUnlock(&mu)
		simrt.WaitGroupDone(&wg)
	}, "afterfunc")
	t2 := simrt.AfterFunc(time.Hour, func() {
		simrt.MutexLock(&mu, "mu")
		res.fired += 100
		simrt.MutexUnlock(&mu)
	}, "afterfunc2")
	stopped := simrt.TimerStop(t2)
	simrt.WaitGroupWait(&wg, "wait afterfunc")
	if !stopped && res.fired < 100 {
		fmt.Println("Stop returned false but the function never ran")
		os.Exit(1)
	}

	// 4. ticker
	tk := simrt.NewTicker(2*time.Millisecond, "ticker")
	for res.ticks < 3 {
		simrt.ChanRecv(tk.C, "tick")
		res.ticks++
	}
	simrt.TickerStop(tk)

	// 5. bounded buffer over sync.Cond
	cond := sync.NewCond(&mu)
	var buf []int
	for p := 0; p < 2; p++ {
		simrt.WaitGroupAdd(&wg, 1)
		simrt.Go(func() {
			defer simrt.WaitGroupDone(&wg)
			for k := 1; k <= 5; k++ {
				simrt.MutexLock(&mu, "mu")
				for len(buf) >= 2 {
					simrt.CondWait(cond, "cond full")
				}
				buf = append(buf, k)
				simrt.CondBroadcast(cond)
				simrt.MutexUnlock(&mu)
			}
		})
	}
	got := 0
	for got < 10 {
		simrt.MutexLock(&mu, "mu")
		for len(buf) == 0 {
			simrt.CondWait(cond, "cond empty")
		}
		res.sum += buf[0]
		buf = buf[1:]
		got++
		if got%2 == 0 {
			simrt.CondSignal(cond)
		} else {
			simrt.CondBroadcast(cond)
		}
		simrt.MutexUnlock(&mu)
	}
	simrt.WaitGroupWait(&wg, "wait producers")

	// 6. pool: an item handed from one task to another through the pool is
	// ordered by the pool (no race report), nothing else is
	pool := &sync.Pool{New: func() any { return new([4]int) }}
	for p := 0; p < 3; p++ {
		simrt.WaitGroupAdd(&wg, 1)
		simrt.Go(func() {
			defer simrt.WaitGroupDone(&wg)
			for k := 0; k < 3; k++ {
				b := simrt.PoolGet(pool, "get").(*[4]int)
				b[0]++
				simrt.Yield("pool work")
				b[1] = b[0]
				simrt.PoolPut(pool, b, "put")
			}
		})
	}
	simrt.WaitGroupWait(&wg, "wait pool")

	// 7. context deadline on the simulated clock
	ctx, cancel := simrt.ContextWithTimeout(context.Background(), 4*time.Millisecond, "ctx")
	child, cancel2 := context.WithCancel(ctx)
	simrt.ChanRecv(child.Done(), "ctx done")
	res.ctxErr = ctx.Err()
	simrt.CallCancel(cancel2)
	simrt.CallCancel(cancel)

	// 8. sync.Map.Range in seam order
	var sm sync.Map
	for _, k := range []string{"c", "a", "b"} {
		sm.Store(k, 1)
	}
	simrt.SyncMapRange(&sm, func(k, _ any) bool { res.keys += k.(string); return true }, "map:selftest")
	return res
}

func main() {
	n := uint64(3000)
	sawTimeout, sawNoTimeout, sawPerm := 0, 0, 0
	simrt.EnableTimerDaemon()
	for seed := uint64(0); seed < n; seed++ {
		var fp [2]uint64
		var rs [2]result
		for rep := 0; rep < 2; rep++ {
			cfg := simrt.Config{Seed: seed, Generative: seed > 0, PreemptDen: []uint32{0, 2, 4, 16}[seed%4], ClockDen: []uint32{0, 3, 5}[seed%3], ClockKinds: 0b11110,
				MapDen: []uint32{0, 2}[seed%2], MapKinds: 0b11110, MaxSteps: 2000000, Trace: seed == 0}
			simrt.Begin(cfg)
			simrt.Run([]func(){func() { rs[rep] = scenario(seed) }})
			st := simrt.End()
			if st.Deadlock || st.Aborted {
				fmt.Println("seed", seed, "deadlock", st.Deadlock, "aborted", st.Aborted, "overrun", st.Overrun)
				os.Exit(1)
			}
			fp[rep] = st.Fingerprint
		}
		r := rs[0]
		if fp[0] != fp[1] || fmt.Sprint(rs[0]) != fmt.Sprint(rs[1]) {
			fmt.Println("seed", seed, "not deterministic", fp, rs)
			os.Exit(1)
		}
		ok := len(r.order) == 3 && r.ticks == 3 && r.sum == 30 && r.ctxErr == context.DeadlineExceeded && (r.fired == 1 || r.fired == 101) && len(r.keys) == 3
		// sleepers: with a monotone clock the order is by wake-up time; clock
		// faults (backward jumps) may delay, never reorder wake-ups that are
		// 10 ms apart unless the clock jumped over several at once
		if seed%3 == 0 && fmt.Sprint(r.order) != "[1 2 0]" {
			ok = false
		}
		if !ok {
			fmt.Println("seed", seed, "wrong result", r)
			os.Exit(1)
		}
		if r.timeout {
			sawTimeout++
		} else {
			sawNoTimeout++
		}
		if r.keys != "abc" {
			sawPerm++
		}
	}
	if sawTimeout == 0 || sawNoTimeout == 0 || sawPerm == 0 {
		fmt.Println("reach: timeouts", sawTimeout, "no timeouts", sawNoTimeout, "permuted ranges", sawPerm)
		os.Exit(1)
	}
	fmt.Println("ok", "timeouts", sawTimeout, "completions", sawNoTimeout, "permuted sync.Map ranges", sawPerm)
}
