// Self-test of the cooperative channel operations: a worker pool over
// unbuffered and buffered channels, range, close and a polling select, under
// 2000 seeded schedules. usage: go run ./internal/chanselftest (also with -race
// and with GOMAXPROCS=1/4).
package main

import (
	"fmt"
	"sync"
	"verifsim/simrt"
)

var mu sync.Mutex

func pool(n int) []int {
	out := make([]int, n)
	jobs := make(chan int)
	results := make(chan [2]int)
	done := make(chan struct{})
	sem := make(chan struct{}, 2)
	var wg sync.WaitGroup
	for w := 0; w < 3; w++ {
		simrt.WaitGroupAdd(&wg, 1)
		simrt.Go(func() {
			defer simrt.WaitGroupDone(&wg)
			for ch := jobs; ; {
				simrt.Yield("a")
				i, ok := simrt.ChanRecv2(ch, "range jobs")
				if !ok {
					break
				}
				simrt.ChanSend(sem, struct{}{}, "send sem")
				for k := 0; k < 30; k++ {
					simrt.Yield("b")
				}
				simrt.MutexLock(&mu, "mu")
				simrt.Yield("b2")
				simrt.MutexUnlock(&mu)
				simrt.ChanRecv(sem, "recv sem")
				simrt.ChanSend(results, [2]int{i, i * i}, "send results")
			}
		})
	}
	simrt.Go(func() {
		for ch := results; ; {
			r, ok := simrt.ChanRecv2(ch, "range results")
			if !ok {
				break
			}
			simrt.Yield("c")
			out[r[0]] = r[1]
		}
		simrt.ChanClose(done)
	})
	for i := 0; i < n; i++ {
		simrt.Yield("d")
		simrt.ChanSend(jobs, i, "send jobs")
	}
	simrt.ChanClose(jobs)
	simrt.WaitGroupWait(&wg, "wait")
	simrt.ChanClose(results)
sel:
	select {
	case <-done:
		simrt.Unlocked()
	default:
		simrt.SelectBlocked("select")
		goto sel
	}
	return out
}

func main() {
	for seed := uint64(0); seed < 2000; seed++ {
		cfg := simrt.Config{Seed: seed, Generative: seed > 0, PreemptDen: []uint32{0, 2, 4, 16}[seed%4], MaxSteps: 1000000, Trace: seed == 0}
		simrt.Begin(cfg)
		var out []int
		simrt.Run([]func(){func() { pool(int(seed % 5)); out = pool(int(seed % 17)) }})
		st := simrt.End()
		if st.Deadlock || st.Aborted {
			fmt.Println("seed", seed, "deadlock", st.Deadlock, "aborted", st.Aborted)
			for _, e := range st.Trace {
				fmt.Println(e)
			}
			return
		}
		for i, v := range out {
			if v != i*i {
				fmt.Println("wrong", seed, out)
				return
			}
		}
	}
	fmt.Println("ok")
}
