package simrt

import (
	"sort"
	"sync"
	"sync/atomic"
	"unsafe"
)

// Cooperative sync.Cond, ordered sync.Map.Range, a simulated sync.Pool and the
// sync.OnceFunc family (rewritten from the corresponding calls).

// --- sync.Cond -------------------------------------------------------------
//
// Wait releases c.L, parks in the simulator until a Signal or Broadcast picks
// this task, and re-acquires c.L - through the cooperative lock operations, so
// the happens-before edges are those of c.L, exactly as with the real Cond
// (which carries no race annotations of its own). Signal wakes one waiter
// chosen by the tape: the documentation promises "one goroutine waiting on c",
// not the longest waiting one.

type condState struct {
	key     uintptr
	waiters []int
}

//go:norace
func (s *sim) condSlot(c *sync.Cond) *condState {
	key := uintptr(unsafe.Pointer(c))
	for i := range s.condTab {
		if s.condTab[i].key == key {
			return &s.condTab[i]
		}
	}
	s.condTab = append(s.condTab, condState{key: key})
	return &s.condTab[len(s.condTab)-1]
}

//go:norace
func condEnqueue(c *sync.Cond) int {
	s := cur
	id := s.turn
	st := s.condSlot(c)
	st.waiters = append(st.waiters, id)
	s.tasks[id].condWait = true
	return id
}

//go:norace
func condWaiting(id int) bool {
	s := cur
	return s != nil && s.tasks != nil && id < len(s.tasks) && s.tasks[id].condWait
}

func CondWait(c *sync.Cond, site string) {
	if !inTask() {
		c.Wait()
		return
	}
	id := condEnqueue(c)
	lockerUnlock(c.L)
	CountFault("cond.wait")
	for condWaiting(id) {
		Blocked(site)
	}
	lockerLock(c.L, site)
}

//go:norace
func condWake(c *sync.Cond, all bool) {
	s := cur
	if s == nil || s.tasks == nil {
		return
	}
	st := s.condSlot(c)
	for len(st.waiters) > 0 {
		k := 0
		if !all && len(st.waiters) > 1 {
			k = int(s.draw(uint32(len(st.waiters))))
		}
		id := st.waiters[k]
		for j := k; j+1 < len(st.waiters); j++ { // no copy(): slicecopy carries race annotations
			st.waiters[j] = st.waiters[j+1]
		}
		st.waiters = st.waiters[:len(st.waiters)-1]
		if id < len(s.tasks) {
			s.tasks[id].condWait = false
		}
		s.unlockGen++
		if !all {
			return
		}
	}
}

func CondSignal(c *sync.Cond) {
	condWake(c, false)
	c.Signal()
}

func CondBroadcast(c *sync.Cond) {
	condWake(c, true)
	c.Broadcast()
}

func lockerUnlock(l sync.Locker) {
	switch m := l.(type) {
	case *sync.Mutex:
		MutexUnlock(m)
	case *sync.RWMutex:
		RWMutexUnlock(m)
	default:
		l.Unlock()
		Unlocked()
	}
}

func lockerLock(l sync.Locker, site string) {
	switch m := l.(type) {
	case *sync.Mutex:
		MutexLock(m, site)
	case *sync.RWMutex:
		RWMutexLock(m, site)
	default:
		if tl, ok := l.(interface{ TryLock() bool }); ok {
			Yield(site)
			for !tl.TryLock() {
				Blocked(site)
			}
			return
		}
		l.Lock()
	}
}

// --- sync.Map.Range ----------------------------------------------------------
//
// sync.Map.Range walks a Go map internally: its order is map order in another
// guise. The entries are collected with the real Range, put into a canonical
// order when the keys have one (strings, integers) and then visited in the
// order the simulator picks for this site.

func SyncMapRange(m *sync.Map, f func(key, value any) bool, site string) {
	if cur == nil {
		m.Range(f)
		return
	}
	type kv struct{ k, v any }
	var all []kv
	m.Range(func(k, v any) bool {
		all = append(all, kv{k, v})
		return true
	})
	sortable := true
	for _, e := range all {
		switch e.k.(type) {
		case string, int, int64, uint64, uint32, int32, uintptr:
		default:
			sortable = false
		}
	}
	if sortable {
		sort.SliceStable(all, func(i, j int) bool { return anyLess(all[i].k, all[j].k) })
	} else {
		CountFault("uncontrolled.syncmap_order")
	}
	perm := order(site, len(all))
	for i := range all {
		j := i
		if perm != nil {
			j = perm[i]
		}
		e := all[j]
		if _, ok := m.Load(e.k); !ok {
			continue // deleted meanwhile: Range may or may not show it
		}
		if !f(e.k, e.v) {
			return
		}
	}
}

func anyLess(a, b any) bool {
	switch x := a.(type) {
	case string:
		if y, ok := b.(string); ok {
			return x < y
		}
	case int:
		if y, ok := b.(int); ok {
			return x < y
		}
	case int64:
		if y, ok := b.(int64); ok {
			return x < y
		}
	case uint64:
		if y, ok := b.(uint64); ok {
			return x < y
		}
	case uint32:
		if y, ok := b.(uint32); ok {
			return x < y
		}
	case int32:
		if y, ok := b.(int32); ok {
			return x < y
		}
	case uintptr:
		if y, ok := b.(uintptr); ok {
			return x < y
		}
	}
	return typeRank(a) < typeRank(b)
}

func typeRank(a any) int {
	switch a.(type) {
	case string:
		return 0
	case int:
		return 1
	case int64:
		return 2
	case uint64:
		return 3
	case uint32:
		return 4
	case int32:
		return 5
	}
	return 6
}

// --- sync.Pool ---------------------------------------------------------------
//
// A real sync.Pool is nondeterministic by design (per-P caches, victim cache
// emptied by the garbage collector, one Put in four dropped at random under the
// race detector). The simulated pool is a list per *sync.Pool value: Get
// returns the most recently put item (canonical), or - with the ambient fault
// family on - a tape-chosen one, or nothing although items exist (pool.miss),
// or nothing after everything was dropped (pool.gc); Put may drop its argument
// (pool.drop). All of those are behaviours sync.Pool is allowed to show. The
// happens-before edge Put -> Get of the same item that the real pool gives is
// reproduced with one atomic per item; nothing else is ordered.

type poolItem struct {
	v    any
	flag atomic.Int32
}

type poolState struct {
	key   uintptr
	items []*poolItem
}

//go:norace
func (s *sim) poolSlot(p *sync.Pool) *poolState {
	key := uintptr(unsafe.Pointer(p))
	for _, st := range s.poolTab {
		if st.key == key {
			return st
		}
	}
	st := &poolState{key: key}
	s.poolTab = append(s.poolTab, st)
	s.keep = append(s.keep, p)
	return st
}

//go:norace
func poolTake(p *sync.Pool, site string) *poolItem {
	s := cur
	st := s.poolSlot(p)
	if len(st.items) == 0 {
		return nil
	}
	k := len(st.items) - 1
	if s.cfg.ClockDen > 0 {
		switch s.draw(s.cfg.ClockDen) {
		case 1:
			s.fault("pool.miss")
			s.event(site, "pool.miss", 0)
			return nil
		case 2:
			s.fault("pool.gc")
			s.event(site, "pool.gc", int64(len(st.items)))
			st.items = nil
			return nil
		case 3:
			k = int(s.draw(uint32(len(st.items))))
		}
	}
	it := st.items[k]
	for j := k; j+1 < len(st.items); j++ { // no copy(): slicecopy carries race annotations
		st.items[j] = st.items[j+1]
	}
	st.items[len(st.items)-1] = nil
	st.items = st.items[:len(st.items)-1]
	s.fault("pool.hit")
	s.event(site, "pool.hit", int64(k))
	return it
}

//go:norace
func poolGive(p *sync.Pool, it *poolItem, site string) bool {
	s := cur
	st := s.poolSlot(p)
	if s.cfg.ClockDen > 0 && s.draw(2*s.cfg.ClockDen) == 1 {
		s.fault("pool.drop")
		s.event(site, "pool.drop", 0)
		return false
	}
	st.items = append(st.items, it)
	return true
}

func PoolGet(p *sync.Pool, site string) any {
	if cur == nil {
		return p.Get()
	}
	if it := poolTake(p, site); it != nil {
		it.flag.Load() // acquire: pairs with the Store in PoolPut
		return it.v
	}
	if p.New != nil {
		return p.New()
	}
	return nil
}

func PoolPut(p *sync.Pool, x any, site string) {
	if cur == nil {
		p.Put(x)
		return
	}
	if x == nil {
		return
	}
	it := &poolItem{v: x}
	it.flag.Store(1) // release
	poolGive(p, it, site)
}

// --- sync.OnceFunc / OnceValue / OnceValues -----------------------------------

func OnceFunc(f func(), site string) func() {
	var once sync.Once
	var pan any
	var ok bool
	return func() {
		OnceDo(&once, func() {
			defer func() {
				if !ok {
					pan = recover()
					panic(pan)
				}
			}()
			f()
			ok = true
		}, site)
		if !ok {
			panic(pan)
		}
	}
}

func OnceValue[T any](f func() T, site string) func() T {
	var v T
	g := OnceFunc(func() { v = f() }, site)
	return func() T { g(); return v }
}

func OnceValues[T1, T2 any](f func() (T1, T2), site string) func() (T1, T2) {
	var v1 T1
	var v2 T2
	g := OnceFunc(func() { v1, v2 = f() }, site)
	return func() (T1, T2) { g(); return v1, v2 }
}
