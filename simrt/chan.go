package simrt

import (
	"os"
	"runtime"
	"sync/atomic"
	"time"
)

// Cooperative channel operations (rewritten from `ch <- v`, `<-ch`,
// `v, ok := <-ch`, `for v := range ch`, `close(ch)` and `select` without
// default). The real channel is still what carries the value, so the race
// detector sees the happens-before edges the code creates itself; what the
// simulator adds is that a task never blocks inside the Go runtime while it
// holds the turn.
//
//   - Every operation is first attempted without blocking; a task whose attempt
//     fails parks in the simulator and retries when something was released
//     (every successful operation and every close wakes the parked).
//   - An unbuffered channel needs one side to really wait in the runtime, or
//     two polling sides would never meet: the side that comes first hands its
//     operation to a helper goroutine that blocks in the runtime on its behalf
//     (a goroutine blocked in a send is exactly what a waiting sender is), and
//     parks in the simulator until the helper reports completion. The side that
//     comes second - a plain operation or a select case - then succeeds with a
//     non-blocking attempt. The first side continues only after the helper is
//     known to be parked in the runtime, so whether a later attempt succeeds is
//     decided by simulated history, not by real timing (workers run with
//     GOMAXPROCS=1: the helper runs until it parks as soon as its owner yields
//     the processor).
//   - select without default polls its cases (the instrumenter appends a
//     default clause that parks and retries). Two selects that could only
//     proceed with each other over an unbuffered channel never meet this way;
//     a stall with two or more polling selects is therefore reported as a
//     limitation of the simulator (exit 2), not as a deadlock of the code.

type chanHelper struct {
	ready atomic.Int32 // the helper is about to block
	done  atomic.Int32 // the operation completed (or panicked)
	pan   any
}

// await parks the calling task until its helper has completed.
func (h *chanHelper) await(site string) {
	for h.ready.Load() == 0 {
		runtime.Gosched()
	}
	// let the helper reach its parked state in the runtime. With one P (how the
	// workers run) it has already parked when its owner gets the processor
	// back; with several, give it real time.
	for k := 0; k < 4; k++ {
		runtime.Gosched()
	}
	multiP := runtime.GOMAXPROCS(0) > 1
	if multiP {
		time.Sleep(200 * time.Microsecond)
	}
	CountFault("chan.wait")
	Unlocked() // a partner's non-blocking attempt can succeed from now on
	for h.done.Load() == 0 {
		Blocked(site)
		// the partner completed the exchange before it woke us; the helper only
		// has to run its last instructions
		for k := 0; k < 64 && h.done.Load() == 0; k++ {
			runtime.Gosched()
		}
		// with several Ps the helper needs real time to be woken and to finish
		// (the workers run with one P: the Gosched calls above are enough there)
		for k := 0; multiP && k < 100 && h.done.Load() == 0; k++ {
			time.Sleep(200 * time.Microsecond)
		}
	}
	if h.pan != nil {
		panic(h.pan)
	}
}

// ChanSend replaces `ch <- v`.
func ChanSend[T any](ch chan<- T, v T, site string) {
	Yield(site)
	if !inTask() {
		ch <- v
		return
	}
	for {
		select {
		case ch <- v:
			Unlocked()
			return
		default:
		}
		if cap(ch) == 0 {
			break
		}
		Blocked(site)
	}
	h := &chanHelper{}
	go func() {
		defer func() {
			h.pan = recover()
			h.done.Store(1)
		}()
		h.ready.Store(1)
		ch <- v
	}()
	h.await(site)
}

// ChanRecv replaces `<-ch` as an expression or statement.
func ChanRecv[T any](ch <-chan T, site string) T {
	v, _ := ChanRecv2(ch, site)
	return v
}

// ChanRecv2 replaces `v, ok := <-ch`.
func ChanRecv2[T any](ch <-chan T, site string) (T, bool) {
	Yield(site)
	if !inTask() {
		v, ok := <-ch
		return v, ok
	}
	for {
		select {
		case v, ok := <-ch:
			Unlocked()
			return v, ok
		default:
		}
		if cap(ch) == 0 {
			break
		}
		Blocked(site)
	}
	h := &chanHelper{}
	var (
		v  T
		ok bool
	)
	go func() {
		defer func() {
			h.pan = recover()
			h.done.Store(1)
		}()
		h.ready.Store(1)
		v, ok = <-ch
	}()
	h.await(site)
	return v, ok
}

// ChanClose replaces close(ch).
func ChanClose[T any](ch chan<- T) {
	close(ch)
	Unlocked()
}

// SelectBlocked is the default clause the instrumenter appends to a select
// that has none: no case was ready, park until something was released, then
// the select is retried.
//
//go:norace
func SelectBlocked(site string) {
	s := cur
	if s == nil || s.tasks == nil || s.turn < 0 {
		runtime.Gosched()
		return
	}
	id := s.turn
	t := &s.tasks[id]
	if t.pollGen != s.unlockGen+1 {
		// something was released since this task last looked (there are yield
		// points between the failed attempt and this call): look again first
		t.pollGen = s.unlockGen + 1
		return
	}
	t.polling = true
	Blocked(site)
	t.polling = false
	t.pollGen = s.unlockGen + 1
}

// unsupportedStall reports whether a stall of every task involves two polling
// selects: they may be waiting for each other over an unbuffered channel, which
// polling cannot resolve - the simulator cannot tell a deadlock of the code
// from its own limitation then.
//
//go:norace
func (s *sim) unsupportedStall() bool {
	polling := 0
	for i := range s.tasks {
		if !s.tasks[i].done && s.tasks[i].polling {
			polling++
		}
	}
	return polling >= 2
}

//go:norace
func unsupported(what string) {
	os.Stderr.WriteString("verif: simulator limitation reached: " + what + "\n")
	os.Exit(2)
}

// SelectOrder decides in which order the cases of a rewritten select are
// attempted: source order canonically, a tape-chosen permutation when the run
// explores interleavings. The Go runtime picks uniformly among the ready cases;
// trying them in a uniformly drawn order and taking the first ready one is the
// same distribution, with the choice on the tape.
//
//go:norace
func SelectOrder(n int, site string) []int {
	o := make([]int, n)
	for i := range o {
		o[i] = i
	}
	s := cur
	if s == nil || n < 2 || s.cfg.PreemptDen == 0 {
		return o
	}
	var h int64
	for i := n - 1; i >= 1; i-- {
		j := i - int(s.draw(uint32(i+1)))
		o[i], o[j] = o[j], o[i]
		h = h*31 + int64(j)
	}
	if h != 0 {
		s.fault("select.order")
		s.event(site, "select.order", h)
	}
	return o
}
