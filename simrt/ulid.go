package simrt

import (
	"encoding/binary"

	"github.com/oklog/ulid/v2"
)

// MakeULID replaces ulid.Make(): the timestamp comes from the simulated
// millisecond clock and the entropy from the simulator. Uniqueness - the only
// thing ulid.Make promises - is preserved; monotonicity is not (the clock may
// stall, jump forwards or jump backwards, the entropy may be non monotone).
//
//go:norace
func MakeULID(site string) ulid.ULID {
	s := cur
	if s == nil {
		return ulid.Make()
	}
	kind := uint32(ClockTick)
	if s.cfg.ClockDen > 0 {
		c := s.draw(s.cfg.ClockDen)
		if c >= 1 && c <= numClockKind && s.cfg.ClockKinds&(1<<c) != 0 {
			kind = c
		}
	}
	switch kind {
	case ClockTick:
		s.ms++
		s.entropy++
	case ClockStall:
		s.entropy++
		s.fault("clock.stall")
		s.event(site, "clock.stall", 0)
	case ClockBack:
		d := 1 + int64(s.draw(5000))
		s.ms -= d
		s.entropy++
		s.fault("clock.back")
		s.event(site, "clock.back", d)
	case ClockFwd:
		d := 1 + int64(s.draw(86_400_000))
		s.ms += d
		s.entropy++
		s.fault("clock.fwd")
		s.event(site, "clock.fwd", d)
	case ClockEntropy:
		s.ms++
		s.entropy = splitmixConst(uint64(s.draw(1<<30)) + s.entropy)
		s.fault("entropy.nonmono")
		s.event(site, "entropy.nonmono", int64(s.entropy&0xffff))
	}
	if s.ms < s.stats.ClockMin {
		s.stats.ClockMin = s.ms
	}
	if s.ms > s.stats.ClockMax {
		s.stats.ClockMax = s.ms
	}
	var id ulid.ULID
	for {
		_ = id.SetTime(uint64(s.ms))
		var e [10]byte
		binary.BigEndian.PutUint64(e[2:], s.entropy)
		e[0] = byte(s.entropy >> 7)
		e[1] = byte(s.entropy >> 3)
		_ = id.SetEntropy(e[:])
		dup := false
		for i := range s.issued {
			if s.issued[i] == [16]byte(id) {
				dup = true
				break
			}
		}
		if !dup {
			break
		}
		s.entropy++ // never hand out a duplicate
	}
	s.issued = append(s.issued, [16]byte(id))
	s.stats.ULIDs++
	return id
}

//go:norace
func splitmixConst(x uint64) uint64 {
	return splitmix(&x)
}
