package simrt

import (
	"encoding/binary"
	"os"
	"runtime"
	"time"

	"github.com/oklog/ulid/v2"
)

// MakeULID replaces ulid.Make(): the timestamp comes from the simulated
// millisecond clock and the entropy from the simulator. Uniqueness - the only
// thing ulid.Make promises - is preserved; monotonicity is not (the clock may
// stall, jump forwards or jump backwards, the entropy may be non monotone).
//
//go:norace
func MakeULID(site string) ulid.ULID {
	s := cur
	if s == nil {
		return ulid.Make()
	}
	kind := uint32(ClockTick)
	if s.cfg.ClockDen > 0 {
		c := s.draw(s.cfg.ClockDen)
		if c >= 1 && c <= numClockKind && s.cfg.ClockKinds&(1<<c) != 0 {
			kind = c
		}
	}
	switch kind {
	case ClockTick:
		s.ms++
		s.entropy++
	case ClockStall:
		s.entropy++
		s.fault("clock.stall")
		s.event(site, "clock.stall", 0)
	case ClockBack:
		d := 1 + int64(s.draw(5000))
		s.ms -= d
		s.entropy++
		s.fault("clock.back")
		s.event(site, "clock.back", d)
	case ClockFwd:
		d := 1 + int64(s.draw(86_400_000))
		s.ms += d
		s.entropy++
		s.fault("clock.fwd")
		s.event(site, "clock.fwd", d)
	case ClockEntropy:
		s.ms++
		s.entropy = splitmixConst(uint64(s.draw(1<<30)) + s.entropy)
		s.fault("entropy.nonmono")
		s.event(site, "entropy.nonmono", int64(s.entropy&0xffff))
	}
	if s.ms < s.stats.ClockMin {
		s.stats.ClockMin = s.ms
	}
	if s.ms > s.stats.ClockMax {
		s.stats.ClockMax = s.ms
	}
	var id ulid.ULID
	for {
		_ = id.SetTime(uint64(s.ms))
		var e [10]byte
		binary.BigEndian.PutUint64(e[2:], s.entropy)
		e[0] = byte(s.entropy >> 7)
		e[1] = byte(s.entropy >> 3)
		_ = id.SetEntropy(e[:])
		dup := false
		for i := range s.issued {
			if s.issued[i] == [16]byte(id) {
				dup = true
				break
			}
		}
		if !dup {
			break
		}
		s.entropy++ // never hand out a duplicate
	}
	s.issued = append(s.issued, [16]byte(id))
	s.stats.ULIDs++
	return id
}

//go:norace
func splitmixConst(x uint64) uint64 {
	return splitmix(&x)
}

// Now replaces time.Now(): the simulated clock (the same one MakeULID reads),
// advanced by a tape-chosen step, so that a result that depends on the wall
// clock depends on the schedule and shows up as a difference between runs.
//
//go:norace
func Now(site string) time.Time {
	s := cur
	if s == nil {
		return time.Now()
	}
	step := int64(1)
	if s.cfg.ClockDen > 0 {
		switch s.draw(s.cfg.ClockDen) {
		case ClockStall:
			step = 0
		case ClockBack:
			step = -1 - int64(s.draw(5000))
		case ClockFwd:
			step = 1 + int64(s.draw(86_400_000))
		}
	}
	s.ms += step
	if s.ms < s.stats.ClockMin {
		s.stats.ClockMin = s.ms
	}
	if s.ms > s.stats.ClockMax {
		s.stats.ClockMax = s.ms
	}
	s.fault("clock.read")
	s.event(site, "clock.read", step)
	return time.UnixMilli(s.ms)
}

// Getenv / LookupEnv replace os.Getenv / os.LookupEnv: the environment is not
// an argument of any call, so a value read from it may be anything. With
// ClockDen set (the "ambient" fault family) one read in ClockDen returns a
// flipped value: unset variables read as "1", set ones as "".
//
//go:norace
func Getenv(key, site string) string {
	v, _ := LookupEnv(key, site)
	return v
}

//go:norace
func LookupEnv(key, site string) (string, bool) {
	v, ok := os.LookupEnv(key)
	s := cur
	if s == nil || s.cfg.ClockDen == 0 {
		return v, ok
	}
	if s.draw(s.cfg.ClockDen) == 1 {
		s.fault("env.flip")
		s.event(site, "env.flip", 0)
		if ok && v != "" {
			return "", true
		}
		return "1", true
	}
	return v, ok
}

// GOMAXPROCS / NumCPU replace runtime.GOMAXPROCS(n) / runtime.NumCPU(): the
// number of processors is ambient, not an argument. A query (n <= 0) returns a
// tape-chosen value out of 1, 2, 4, 16 when the ambient fault family is on, so
// that size- or parallelism-dependent paths ("only above 2 procs") are entered
// under simulation too. A setter call is passed through.
//
//go:norace
func GOMAXPROCS(n int, site string) int {
	if n > 0 {
		return runtime.GOMAXPROCS(n)
	}
	return ambientProcs(runtime.GOMAXPROCS(0), site)
}

//go:norace
func NumCPU(site string) int { return ambientProcs(runtime.NumCPU(), site) }

//go:norace
func ambientProcs(real int, site string) int {
	s := cur
	if s == nil || s.cfg.ClockDen == 0 {
		return real
	}
	v := []int{1, 2, 4, 16}[s.draw(4)]
	s.fault("env.procs")
	s.event(site, "env.procs", int64(v))
	return v
}
