// Package simrt is the runtime half of the deterministic simulator: the seams
// that the instrumenter splices into a scratch copy of openfga/language call
// into this package. With no simulation attached every seam degrades to the
// canonical behaviour (sorted map order, no parking, real ulid.Make).
//
// Everything that touches the simulator's private state is //go:norace so the
// race detector learns no happens-before edge between simulated tasks from the
// simulator itself (DESIGN.md §4). Wrappers that touch the program's own data
// (RangeMap reading the caller's map) stay instrumented on purpose.
package simrt

import (
	"os"
	"runtime"
	"strconv"
	"strings"
	"sync"
	"sync/atomic"
)

// Map perturbation kinds (tape value -> kind). 0 is always "canonical".
const (
	KindIdentity  = 0
	KindReverse   = 1
	KindRotate    = 2
	KindShuffle   = 3
	KindLastFirst = 4
	numMapKinds   = 4
)

// Clock fault kinds.
const (
	ClockTick    = 0 // +1ms, entropy+1
	ClockStall   = 1 // same ms
	ClockBack    = 2 // jump backwards
	ClockFwd     = 3 // jump forwards
	ClockEntropy = 4 // non monotone entropy
	numClockKind = 4
)

// Policy is a systematic (non tape) override for map iteration order.
type Policy struct {
	Mode string `json:"mode"`           // "reverse" | "rotate" | "perm" | "lastfirst"
	K    int    `json:"k,omitempty"`    // rotate amount
	Perm []int  `json:"perm,omitempty"` // explicit permutation (applies when its length equals the map length)
	Site string `json:"site,omitempty"` // substring that the site id must contain; "" = every site
	Occ  int    `json:"occ"`            // -1 = every occurrence; n = only the n-th (0 based) occurrence of a matching site
}

// Config fully determines a simulated run together with the code under test.
type Config struct {
	Tape       []uint32 `json:"tape,omitempty"` // explicit choice tape; past its end: PRNG if Generative else 0
	Seed       uint64   `json:"seed"`
	Generative bool     `json:"generative,omitempty"`
	Policies   []Policy `json:"policies,omitempty"`
	MapDen     uint32   `json:"map_den,omitempty"`     // 0 = tape never perturbs maps; else draw(MapDen), 1..4 = kind
	MapKinds   uint32   `json:"map_kinds,omitempty"`   // bitmask (1<<kind)
	PreemptDen uint32   `json:"preempt_den,omitempty"` // 0 = never preempt; else draw(PreemptDen)==1 preempts
	ClockDen   uint32   `json:"clock_den,omitempty"`   // 0 = monotone clock
	ClockKinds uint32   `json:"clock_kinds,omitempty"`
	MaxSteps   int64    `json:"max_steps,omitempty"`
	Trace      bool     `json:"trace,omitempty"`
}

// Event is one seam event (only kept when Config.Trace is set).
type Event struct {
	Seq    int64  `json:"seq"`
	Task   int    `json:"task"`
	Site   string `json:"site"`
	Kind   string `json:"kind"`
	Choice int64  `json:"choice"`
}

// Stats is what a run reports back.
type Stats struct {
	Fingerprint uint64
	Events      int64
	Steps       int64 // scheduling points passed
	SeqSteps    int64 // yield points passed while a single caller ran (no scheduling)
	Switches    int64
	Draws       int64
	TapeUsed    []uint32
	Faults      map[string]int64
	SitesSeen   map[string]int64 // map sites reached with >= 2 keys
	SitesHit    map[string]int64 // map sites where a non identity order was applied
	ClockMs     int64            // simulated time covered by the ULID clock
	ClockMin    int64
	ClockMax    int64
	ULIDs       int64
	Deadlock    bool
	Overrun     bool
	Aborted     bool
	Trace       []Event
}

type taskState struct {
	done       bool
	blocked    bool
	blockedGen int64
	steps      int64
	polling    bool   // parked in the default clause of a rewritten select
	pollGen    int64  // unlockGen+1 when this task last looked at its select cases (0 = never)
	where      string // site of the last Blocked call (debugging aid)
	sleepUntil int64  // != 0: asleep until the simulated clock reaches it
	condWait   bool   // parked in CondWait, not yet signalled
}

type sim struct {
	cfg   Config
	tape  []uint32
	pos   int
	rng   uint64
	stats Stats

	occ       ctab
	faults    ctab
	sitesSeen ctab
	sitesHit  ctab

	// scheduler
	tasks     []taskState
	turn      int // id of the task allowed to run; -2 = the driver goroutine
	unlockGen int64
	aborted   bool
	runOver   bool           // set by the driver when every task has finished: parked task goroutines may exit
	inline    bool           // inside Run's single-task path (the driver goroutine is the task)
	nroot     int            // number of root tasks (slots below it are never reused)
	joined    sync.WaitGroup // task exit -> driver happens-before edge
	wgTab     []wgState      // cooperative sync.WaitGroup counters

	// clock
	ms      int64
	entropy uint64
	issued  [][16]byte
	onceTab []onceState

	// discrete-event time (time.go)
	timers    []timerState
	timerSeq  int64
	npending  int // active timers
	keep      []any
	daemonOn  bool
	daemonReq func()
	ended     bool
	sweepGen  int64 // unlockGen at which the last-chance retry round was started

	// cooperative sync.Cond / simulated sync.Pool / sync.Map (sync2.go)
	condTab []condState
	poolTab []*poolState
}

type onceState struct {
	key     uintptr
	running bool
}

type wgState struct {
	key uintptr
	n   int
}

// maxTasks bounds the task table (it is never reallocated: parked tasks keep
// pointers into it). Goroutines started beyond it run outside the scheduler.
const maxTasks = 1024

// ctab is a string -> counter table built on slices only. Go maps cannot be
// used for state that simulated tasks touch: the runtime's map functions carry
// their own race annotations, which //go:norace does not switch off, so the
// race detector would see the tasks "racing" on the simulator's bookkeeping.
type ctab struct {
	keys []string
	vals []int64
	n    int
}

//go:norace
func (t *ctab) slot(k string) int {
	if len(t.keys) == 0 {
		t.keys = make([]string, 64)
		t.vals = make([]int64, 64)
	}
	mask := len(t.keys) - 1
	i := int(hashString(0xcbf29ce484222325, k)) & mask
	for t.keys[i] != "" && t.keys[i] != k {
		i = (i + 1) & mask
	}
	return i
}

//go:norace
func (t *ctab) add(k string, d int64) int64 {
	i := t.slot(k)
	if t.keys[i] == "" {
		if (t.n+1)*2 > len(t.keys) {
			t.grow()
			i = t.slot(k)
		}
		t.keys[i] = k
		t.n++
	}
	t.vals[i] += d
	return t.vals[i]
}

//go:norace
func (t *ctab) grow() {
	ok, ov := t.keys, t.vals
	t.keys = make([]string, 2*len(ok))
	t.vals = make([]int64, 2*len(ok))
	for i, k := range ok {
		if k != "" {
			j := t.slot(k)
			t.keys[j] = k
			t.vals[j] = ov[i]
		}
	}
}

func (t *ctab) toMap() map[string]int64 {
	m := make(map[string]int64, t.n)
	for i, k := range t.keys {
		if k != "" {
			m[k] = t.vals[i]
		}
	}
	return m
}

var cur *sim

// abortSignal is panicked inside tasks when the run is aborted (deadlock or
// step overrun) so that parked goroutines unwind instead of spinning forever.
type abortSignal struct{}

// IsAbort reports whether a recovered panic value is the simulator's abort signal.
//
//go:norace
func IsAbort(v any) bool { _, ok := v.(abortSignal); return ok }

//go:norace
func splitmix(x *uint64) uint64 {
	*x += 0x9e3779b97f4a7c15
	z := *x
	z = (z ^ (z >> 30)) * 0xbf58476d1ce4e5b9
	z = (z ^ (z >> 27)) * 0x94d049bb133111eb
	return z ^ (z >> 31)
}

// Begin attaches a simulation. Must be called with no task running.
//
//go:norace
func Begin(cfg Config) {
	RunPendingFinalizers()
	s := &sim{cfg: cfg, rng: cfg.Seed, turn: -2, sweepGen: -1}
	s.tape = append([]uint32(nil), cfg.Tape...)
	s.stats.Fingerprint = 0xcbf29ce484222325
	s.ms = 1_700_000_000_000
	s.stats.ClockMin = s.ms
	s.stats.ClockMax = s.ms
	if timerDaemonWanted {
		s.daemonOn = true
		go timerDaemon(s)
	}
	cur = s
}

// End detaches the simulation and returns its statistics.
//
//go:norace
func End() Stats {
	s := cur
	cur = nil
	if s == nil {
		return Stats{}
	}
	RunPendingFinalizers()
	s.ended = true
	if s.pos < len(s.tape) {
		s.stats.TapeUsed = s.tape[:s.pos]
	} else {
		s.stats.TapeUsed = s.tape
	}
	s.stats.ClockMs = s.stats.ClockMax - s.stats.ClockMin
	s.stats.Faults = s.faults.toMap()
	s.stats.SitesSeen = s.sitesSeen.toMap()
	s.stats.SitesHit = s.sitesHit.toMap()
	return s.stats
}

// Attached reports whether a simulation is attached.
//
//go:norace
func Attached() bool { return cur != nil }

//go:norace
func (s *sim) draw(n uint32) uint32 {
	if n <= 1 {
		return 0
	}
	var v uint32
	if s.pos < len(s.tape) {
		v = s.tape[s.pos]
	} else if s.cfg.Generative {
		v = uint32(splitmix(&s.rng) % uint64(n))
		s.tape = append(s.tape, v)
	} else {
		s.tape = append(s.tape, 0)
	}
	s.pos++
	s.stats.Draws++
	return v % n
}

//go:norace
func hashString(h uint64, str string) uint64 {
	for i := 0; i < len(str); i++ {
		h ^= uint64(str[i])
		h *= 0x100000001b3
	}
	return h
}

//go:norace
func (s *sim) event(site, kind string, choice int64) {
	s.stats.Events++
	h := s.stats.Fingerprint
	h = hashString(h, site)
	h = hashString(h, kind)
	h ^= uint64(choice) + uint64(s.turn+3)<<40
	h *= 0x100000001b3
	s.stats.Fingerprint = h
	if s.cfg.Trace {
		s.stats.Trace = append(s.stats.Trace, Event{Seq: s.stats.Events, Task: s.turn, Site: site, Kind: kind, Choice: choice})
	}
	if debugEvents {
		os.Stderr.WriteString("EV task " + strconv.Itoa(s.turn) + " " + kind + " " + strconv.FormatInt(choice, 10) + " " + site + "\n")
	}
}

var debugEvents = os.Getenv("VERIF_SIMDEBUG") == "2"

//go:norace
func (s *sim) fault(kind string) { s.faults.add(kind, 1) }

// order decides the iteration order of one map traversal: nil = canonical
// (sorted) order, otherwise a permutation of 0..n-1.
//
//go:norace
func order(site string, n int) []int {
	s := cur
	if s == nil || n < 2 {
		return nil
	}
	occ := int(s.occ.add(site, 1)) - 1
	s.sitesSeen.add(site, 1)
	for i := range s.cfg.Policies {
		p := &s.cfg.Policies[i]
		if p.Site != "" && !strings.Contains(site, p.Site) {
			continue
		}
		if p.Occ >= 0 && p.Occ != occ {
			continue
		}
		perm := policyPerm(p, n)
		if perm != nil {
			s.sitesHit.add(site, 1)
			s.fault("map." + p.Mode)
			s.event(site, "policy."+p.Mode, int64(p.K))
		}
		return perm
	}
	if s.cfg.MapDen == 0 {
		return nil
	}
	c := s.draw(s.cfg.MapDen)
	if c == 0 || c > numMapKinds || s.cfg.MapKinds&(1<<c) == 0 {
		return nil
	}
	perm := make([]int, n)
	for i := range perm {
		perm[i] = i
	}
	switch c {
	case KindReverse:
		for i, j := 0, n-1; i < j; i, j = i+1, j-1 {
			perm[i], perm[j] = perm[j], perm[i]
		}
		s.fault("map.reverse")
		s.event(site, "map.reverse", 0)
	case KindRotate:
		k := 1 + int(s.draw(uint32(n-1)))
		for i := range perm {
			perm[i] = (i + k) % n
		}
		s.fault("map.rotate")
		s.event(site, "map.rotate", int64(k))
	case KindShuffle:
		var h int64
		for i := n - 1; i >= 1; i-- {
			j := i - int(s.draw(uint32(i+1)))
			perm[i], perm[j] = perm[j], perm[i]
			h = h*31 + int64(j)
		}
		s.fault("map.shuffle")
		s.event(site, "map.shuffle", h)
	case KindLastFirst:
		for i := range perm {
			perm[i] = (i + n - 1) % n
		}
		s.fault("map.lastfirst")
		s.event(site, "map.lastfirst", 0)
	}
	s.sitesHit.add(site, 1)
	return perm
}

//go:norace
func policyPerm(p *Policy, n int) []int {
	perm := make([]int, n)
	switch p.Mode {
	case "reverse":
		for i := range perm {
			perm[i] = n - 1 - i
		}
	case "rotate":
		k := ((p.K % n) + n) % n
		if k == 0 {
			return nil
		}
		for i := range perm {
			perm[i] = (i + k) % n
		}
	case "lastfirst":
		for i := range perm {
			perm[i] = (i + n - 1) % n
		}
	case "perm":
		if len(p.Perm) != n {
			return nil
		}
		seen := make([]bool, n)
		for i, v := range p.Perm {
			if v < 0 || v >= n || seen[v] {
				return nil
			}
			seen[v] = true
			perm[i] = v
		}
	default:
		return nil
	}
	return perm
}

// Order is the exported form of order for seams that live outside this module
// (the gonum iterator overlay).
//
//go:norace
func Order(site string, n int) []int { return order(site, n) }

// ---------------------------------------------------------------------------
// Scheduler

// Run executes the task functions as simulated caller threads: real
// goroutines, exactly one of which runs at any time; who runs next is decided
// by the tape at yield points. It returns when every task has finished or the
// run was aborted. A panic inside a task must be recovered by the task itself
// (the worker wraps each operation); the abort signal is recovered here.
//
//go:norace
func Run(fns []func()) {
	s := cur
	if s == nil || len(fns) == 0 {
		for _, f := range fns {
			f()
		}
		return
	}
	if len(fns) == 1 {
		// a single task needs no scheduler: it runs on the driver goroutine and
		// yields are no-ops - unless the code under test starts goroutines of
		// its own (simrt.Go), which promotes the run to scheduler mode with the
		// driver goroutine as task 0.
		s.tasks = nil
		s.turn = -2
		s.inline = true
		runTask(fns[0]) // swallows the abort signal of a promoted run
		s.inline = false
		if s.tasks != nil {
			s.exitTask(0)
			for s.turn != -2 {
				runtime.Gosched()
			}
			s.runOver = true
			s.joined.Wait()
			s.runOver = false
			s.tasks = nil
		}
		return
	}
	s.tasks = make([]taskState, len(fns), maxTasks)
	s.nroot = len(fns)
	s.turn = -1
	// The only happens-before edges the simulator itself creates: driver ->
	// task at goroutine creation, and task exit -> driver through this
	// WaitGroup (so the harness may read what the tasks produced). Nothing
	// orders one task with another.
	s.joined.Add(len(fns))
	for i, f := range fns {
		go taskMain(s, i, f, &s.joined)
	}
	// pick the first task from the tape
	first := int(s.draw(uint32(len(fns))))
	s.event("sched", "start", int64(first))
	s.turn = first
	for s.turn != -2 {
		runtime.Gosched()
	}
	s.runOver = true
	s.joined.Wait()
	s.runOver = false
	s.tasks = nil
}

// Go is what a `go` statement of the code under test is rewritten to: the new
// goroutine becomes a simulated task like any other (runnable at once; who
// runs next stays the tape's decision). The real `go` statement inside gives
// the parent -> child happens-before edge the language promises.
//
//go:norace
func Go(f func()) {
	s := cur
	if s == nil {
		go f()
		return
	}
	s.spawn(f, nil)
}

// spawn registers f as a new simulated task. timerRel != nil: the goroutine is
// created by the timer daemon (time.AfterFunc), so that no happens-before edge
// leads from the task that advanced the clock to f; the one from the task that
// armed the timer is kept through timerRel.
//
//go:norace
func (s *sim) spawn(f func(), timerRel *atomic.Int32) {
	start := func(g func()) {
		if timerRel != nil {
			s.viaDaemon(func() { timerRel.Load(); g() })
		} else {
			g()
		}
	}
	if s.tasks == nil {
		if !s.inline {
			// driver context (warm-up history, references): not scheduled
			start(func() { go runTask(f) })
			return
		}
		// promote the inline single-task run: the driver goroutine is task 0
		s.tasks = make([]taskState, 1, maxTasks)
		s.nroot = 1
		s.turn = 0
	}
	if s.turn < 0 {
		s.fault("uncontrolled.goroutine")
		start(func() { go runTask(f) })
		return
	}
	// reuse the slot of a finished spawned task (the table never grows beyond
	// maxTasks and is never reallocated)
	id := -1
	for i := s.nroot; i < len(s.tasks); i++ {
		if s.tasks[i].done {
			id = i
			s.tasks[i] = taskState{}
			break
		}
	}
	if id < 0 {
		if len(s.tasks) >= maxTasks {
			s.fault("uncontrolled.goroutine")
			start(func() { go runTask(f) })
			return
		}
		id = len(s.tasks)
		s.tasks = append(s.tasks, taskState{})
	}
	s.joined.Add(1)
	s.fault("spawn")
	s.event("sched", "spawn", int64(id))
	start(func() { go taskMain(s, id, f, &s.joined) })
}

//go:norace
func taskMain(s *sim, id int, f func(), joined *sync.WaitGroup) {
	for s.turn != id {
		if s.aborted {
			s.exitTask(id)
			for !s.runOver {
				runtime.Gosched()
			}
			joined.Done()
			return
		}
		runtime.Gosched()
	}
	runTask(f)
	s.exitTask(id)
	// Stay alive (parked) until the whole run is over. ThreadSanitizer reuses
	// the "slot" of a finished goroutine for the next one that needs a slot, and
	// accesses made by an earlier owner of a slot are then taken to have
	// happened before: a task that finished before another one touched the same
	// memory would silently stop racing with it. Keeping the goroutine alive
	// keeps its slot.
	for !s.runOver {
		runtime.Gosched()
	}
	joined.Done()
}

// runTask runs the task body and swallows the simulator's own abort signal.
// Any other panic is not ours: the worker recovers operation panics itself,
// so one arriving here is a harness bug and is allowed to kill the process.
//
//go:norace
func runTask(f func()) {
	defer recoverAbort()
	f()
}

//go:norace
func recoverAbort() {
	if r := recover(); r != nil {
		if !IsAbort(r) {
			panic(r)
		}
	}
}

// exitTask marks the task finished and hands the turn to another runnable
// task, or back to the driver.
//
//go:norace
func (s *sim) exitTask(id int) {
	s.tasks[id].done = true
	if s.allDone() {
		s.turn = -2
		return
	}
	if s.aborted {
		s.turn = -3 // nobody: parked tasks notice aborted and unwind one by one
		return
	}
	r := s.runnable(id, false)
	for len(r) == 0 && s.unstall() {
		r = s.runnable(id, false)
	}
	if len(r) == 0 {
		// the remaining tasks are all parked on locks: deadlock
		if s.unsupportedStall() {
			unsupported("every task is parked and two or more of them poll a select statement: they may be waiting for each other over an unbuffered channel")
		}
		s.stats.Deadlock = true
		s.aborted = true
		s.stats.Aborted = true
		s.turn = -3
		return
	}
	pick := int(s.draw(uint32(len(r))))
	s.event("sched", "finish", int64(r[pick]))
	s.stats.Switches++
	s.turn = r[pick]
}

//go:norace
func (s *sim) allDone() bool {
	for i := range s.tasks {
		if !s.tasks[i].done {
			return false
		}
	}
	return true
}

// runnable lists tasks other than self (or including self first when
// withSelf) that are not finished and not parked on a lock nobody released.
//
//go:norace
func (s *sim) runnable(self int, withSelf bool) []int {
	r := make([]int, 0, len(s.tasks))
	if withSelf {
		r = append(r, self)
	}
	n := len(s.tasks)
	for d := 1; d < n; d++ {
		i := (self + d) % n
		t := &s.tasks[i]
		if t.done {
			continue
		}
		if t.blocked && t.blockedGen == s.unlockGen {
			continue
		}
		if t.sleepUntil != 0 && s.ms < t.sleepUntil {
			continue
		}
		r = append(r, i)
	}
	return r
}

//go:norace
func (s *sim) park(id int) {
	for s.turn != id {
		if s.aborted {
			panic(abortSignal{})
		}
		runtime.Gosched()
	}
}

// Yield is a scheduling point.
//
//go:norace
func Yield(site string) {
	s := cur
	if s == nil {
		return
	}
	if s.tasks == nil {
		// single caller: nothing to schedule, but the work is counted so that
		// concurrent executions can be bounded relative to sequential ones
		s.stats.SeqSteps++
		if s.inline && finPending.Load() != 0 {
			s.spawnPendingFinalizers() // promotes the run to scheduler mode
		}
		return
	}
	id := s.turn
	if id < 0 {
		return // driver context (reference computations between phases)
	}
	if finPending.Load() != 0 {
		s.spawnPendingFinalizers()
	}
	s.stats.Steps++
	s.tasks[id].steps++
	if s.cfg.MaxSteps > 0 && s.stats.Steps > s.cfg.MaxSteps {
		if !s.stats.Overrun {
			s.stats.Overrun = true
		}
		s.aborted = true
		s.stats.Aborted = true
		panic(abortSignal{})
	}
	if s.npending > 0 && s.cfg.ClockDen > 0 && s.draw(8*s.cfg.ClockDen) == 1 {
		// time passes although tasks could still run (slow tasks are a legal
		// schedule): the next pending timer fires now
		s.idleAdvance("clock.early_jump")
	}
	if s.cfg.PreemptDen == 0 {
		return
	}
	if s.draw(s.cfg.PreemptDen) != 1 {
		return
	}
	r := s.runnable(id, true)
	if len(r) < 2 {
		return
	}
	pick := int(s.draw(uint32(len(r))))
	if pick == 0 {
		return
	}
	s.fault("preempt")
	s.event(site, "preempt", int64(r[pick]))
	s.stats.Switches++
	s.turn = r[pick]
	s.park(id)
}

// Blocked is called by a cooperative lock when TryLock failed: the task cannot
// make progress until somebody calls Unlocked.
//
//go:norace
func Blocked(site string) {
	s := cur
	if s == nil || s.tasks == nil || s.turn < 0 {
		runtime.Gosched()
		return
	}
	id := s.turn
	s.stats.Steps++
	t := &s.tasks[id]
	t.blocked = true
	t.blockedGen = s.unlockGen
	t.where = site
	r := s.runnable(id, false)
	for len(r) == 0 && s.unstall() {
		if t.blockedGen != s.unlockGen {
			// what this task waits for may have happened: look again
			t.blocked = false
			return
		}
		r = s.runnable(id, false)
	}
	if len(r) == 0 {
		if s.unsupportedStall() {
			unsupported("every task is parked and two or more of them poll a select statement (" + site + "): they may be waiting for each other over an unbuffered channel")
		}
		s.debugStall(site)
		s.stats.Deadlock = true
		s.aborted = true
		s.stats.Aborted = true
		panic(abortSignal{})
	}
	pick := int(s.draw(uint32(len(r))))
	s.fault("lock.contend")
	s.event(site, "blocked", int64(r[pick]))
	s.stats.Switches++
	s.turn = r[pick]
	s.park(id)
	t.blocked = false
}

// unstall is called when no task is runnable. First, simulated time passes up
// to the next pending wake-up (discrete-event clock). Failing that, every parked
// task gets one last-chance retry round per generation: a wake-up source the
// instrumenter does not know (a channel closed inside the standard library, a
// callback of a dependency) must not be mistaken for a deadlock. Only a stall
// that survives a whole retry round in which nothing was released is final.
//
//go:norace
func (s *sim) unstall() bool {
	s.stats.Steps++
	if s.cfg.MaxSteps > 0 && s.stats.Steps > s.cfg.MaxSteps {
		return false // e.g. a ticker nobody listens to any more
	}
	if s.idleAdvance("clock.idle_jump") {
		return true
	}
	if s.sweepGen == s.unlockGen {
		return false
	}
	s.unlockGen++
	s.sweepGen = s.unlockGen
	s.fault("stall.retry")
	return true
}

// Unlocked tells the scheduler that some lock was released.
//
//go:norace
func Unlocked() {
	s := cur
	if s == nil {
		return
	}
	s.unlockGen++
}

// CurrentTask returns the id of the running simulated task, or -1.
//
//go:norace
func CurrentTask() int {
	s := cur
	if s == nil || s.tasks == nil {
		return -1
	}
	return s.turn
}

// Note records a harness-level event (invoke/return stamps) in the event log.
//
//go:norace
func Note(site, kind string, v int64) int64 {
	s := cur
	if s == nil {
		return 0
	}
	s.event(site, kind, v)
	return s.stats.Events
}

// CountFault lets the harness count a fault kind it injects itself
// (deliver.permute, restart.cold, history.warm ...).
//
//go:norace
func CountFault(kind string) {
	s := cur
	if s == nil {
		return
	}
	s.fault(kind)
	s.event("harness", kind, 0)
}

// Draw exposes the tape to the harness for choices that belong to the
// schedule (not to the workload plan).
//
//go:norace
func Draw(n uint32) uint32 {
	s := cur
	if s == nil {
		return 0
	}
	return s.draw(n)
}

// debugStall prints the scheduler state when VERIF_SIMDEBUG is set (development aid).
//
//go:norace
func (s *sim) debugStall(site string) {
	if os.Getenv("VERIF_SIMDEBUG") == "" {
		return
	}
	os.Stderr.WriteString("STALL at " + site + " turn " + strconv.Itoa(s.turn) + " gen " + strconv.FormatInt(s.unlockGen, 10) + "\n")
	for i := range s.tasks {
		t := &s.tasks[i]
		os.Stderr.WriteString("  task " + strconv.Itoa(i) + " done=" + strconv.FormatBool(t.done) + " blocked=" + strconv.FormatBool(t.blocked) + " gen=" + strconv.FormatInt(t.blockedGen, 10) + " polling=" + strconv.FormatBool(t.polling) + " at " + t.where + "\n")
	}
}
