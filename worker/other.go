package main

func minimiseOther(cur *Violation, orig *Violation, bud *minBudget, holds func(*Violation) bool) {}
