package main

// engine dispatch for replay and minimisation

import (
	"encoding/json"
	"fmt"
	"os"

	"verifsim/simrt"
)

type engineCtx interface {
	check(cfg simrt.Config) ([]mismatch, simrt.Stats, string)
}

func ctxFor(engine string, raw json.RawMessage) engineCtx {
	bad := func(err error) {
		fmt.Fprintln(os.Stderr, "worker: bad workload:", err)
		os.Exit(2)
	}
	switch engine {
	case "wgsim":
		var wl wlWG
		if err := json.Unmarshal(raw, &wl); err != nil {
			bad(err)
		}
		return newWGCtx(&wl)
	case "plainsim":
		var wl wlPlain
		if err := json.Unmarshal(raw, &wl); err != nil {
			bad(err)
		}
		return newPlainCtx(&wl)
	case "mergesim":
		var wl wlMerge
		if err := json.Unmarshal(raw, &wl); err != nil {
			bad(err)
		}
		return newMergeCtx(&wl)
	case "puresim":
		var wl wlPure
		if err := json.Unmarshal(raw, &wl); err != nil {
			bad(err)
		}
		return newPureCtx(&wl)
	case "rendersim":
		var wl wlRender
		if err := json.Unmarshal(raw, &wl); err != nil {
			bad(err)
		}
		return newRenderCtx(&wl)
	}
	fmt.Fprintln(os.Stderr, "worker: unknown engine", engine)
	os.Exit(2)
	return nil
}

func engineCandidates(engine string, raw json.RawMessage) []json.RawMessage {
	switch engine {
	case "wgsim":
		return wgCandidates(raw)
	case "plainsim":
		var wl wlPlain
		if json.Unmarshal(raw, &wl) != nil {
			return nil
		}
		var out []json.RawMessage
		for _, cm := range modelCandidates(wl.Model) {
			b, _ := json.Marshal(&wlPlain{Model: cm})
			out = append(out, b)
		}
		return out
	case "mergesim":
		return mergeCandidates(raw)
	case "puresim":
		return pureCandidates(raw)
	case "rendersim":
		return renderCandidates(raw)
	}
	return nil
}

func engineDescribe(engine string, raw json.RawMessage) string {
	switch engine {
	case "wgsim":
		var wl wlWG
		if json.Unmarshal(raw, &wl) == nil && wl.Model != nil {
			return wl.Model.describe()
		}
	case "plainsim":
		var wl wlPlain
		if json.Unmarshal(raw, &wl) == nil && wl.Model != nil {
			return wl.Model.describe()
		}
	case "mergesim":
		var wl wlMerge
		if json.Unmarshal(raw, &wl) == nil {
			return wl.describe()
		}
	case "puresim":
		var wl wlPure
		if json.Unmarshal(raw, &wl) == nil {
			return wl.describe()
		}
	case "rendersim":
		var wl wlRender
		if json.Unmarshal(raw, &wl) == nil && wl.Model != nil {
			return describeRender(&wl)
		}
	}
	return ""
}

func engineKnown(v *Violation, x mismatch) string {
	switch v.Engine {
	case "wgsim":
		var wl wlWG
		if json.Unmarshal(v.Workload, &wl) == nil && wl.Model != nil {
			return wgKnown(v.Property, x, &wl, buildRef(wl.Model))
		}
	}
	return ""
}
