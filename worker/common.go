package main

import (
	"encoding/json"
	"fmt"
	"os"
	"sort"

	"verifsim/simrt"
)

// Violation is one reported disagreement between the code under test and an
// oracle, with everything needed to replay it.
type Violation struct {
	Property    string          `json:"property"`
	Engine      string          `json:"engine"`
	Class       string          `json:"class"`
	Detail      string          `json:"detail"`
	Known       string          `json:"known,omitempty"`
	Seed        uint64          `json:"seed"`
	Run         uint64          `json:"run"`
	Workload    json.RawMessage `json:"workload"`
	Sched       simrt.Config    `json:"sched"`
	SchedName   string          `json:"sched_name"`
	Fingerprint string          `json:"fingerprint"`
	Minimised   bool            `json:"minimised,omitempty"`
	Describe    string          `json:"describe,omitempty"`
	RaceReport  string          `json:"race_report,omitempty"`
	// Batch: the position of the run in its batch. A violation that depends on
	// what the worker process did before this run (process-global state left by
	// earlier workloads) does not reproduce from its own workload alone; it is
	// then replayed by re-executing the shard up to and including this run
	// (BatchHistory = true), which is deterministic.
	Batch        *BatchPos `json:"batch,omitempty"`
	BatchHistory bool      `json:"batch_history,omitempty"`
}

type BatchPos struct {
	Tier    string `json:"tier"`
	Shard   int    `json:"shard"`
	NShards int    `json:"nshards"`
	N       int    `json:"n"`
	Race    bool   `json:"race,omitempty"`
	// WeakHash: the weak-hash mode of the worker process (simrt/hash.go), 0 = off
	WeakHash int `json:"weak_hash_bits,omitempty"`
}

type Sample struct {
	Workload string `json:"workload"`
	Sched    string `json:"schedule"`
	Outcome  string `json:"outcome"`
}

// BatchResult is what one worker process reports for its shard.
type BatchResult struct {
	Engine        string             `json:"engine"`
	Property      string             `json:"property"`
	Seed          uint64             `json:"seed"`
	Shard         int                `json:"shard"`
	Workloads     int                `json:"workloads"`
	Evaluations   int                `json:"evaluations"`
	Fingerprints  []uint64           `json:"fingerprints"` // distinct, nontrivial workload, >= 1 fault fired
	WorkloadKeys  []uint64           `json:"workload_keys"`
	Faults        map[string]int64   `json:"faults"`
	SitesSeen     map[string]int64   `json:"sites_seen"`
	SitesHit      map[string]int64   `json:"sites_hit"`
	Steps         int64              `json:"steps"`
	Switches      int64              `json:"switches"`
	ClockMs       int64              `json:"clock_ms"`
	ULIDs         int64              `json:"ulids"`
	Mix           map[string]int64   `json:"mix"`
	Violations    []Violation        `json:"violations"`
	ViolationCnt  map[string]int64   `json:"violation_counts"`
	KnownHits     map[string]int64   `json:"known_hits"`
	KnownExamples map[string]string  `json:"known_examples"`
	Samples       []Sample           `json:"samples"`
	RerunN        int                `json:"rerun_n"`
	RerunDiv      int                `json:"rerun_divergences"`
	Probes        map[string]int64   `json:"probes"`
	WallS         float64            `json:"wall_s"`
	TimedOut      bool               `json:"timed_out,omitempty"`
	Extra         map[string]float64 `json:"extra,omitempty"`
	RunHashes     map[string]string  `json:"run_hashes,omitempty"` // determinism proof: run index -> hash of everything observed

	curRun  uint64
	curHash uint64
	trace   bool
	pos     *BatchPos
	onlyRun int64 // >= 0: keep only violations of this run (batch replay)
	fpSet   map[uint64]bool
	keySet  map[uint64]bool
}

func newBatch(engine, prop string, seed uint64, shard int) *BatchResult {
	return &BatchResult{
		Engine: engine, Property: prop, Seed: seed, Shard: shard,
		Faults: map[string]int64{}, SitesSeen: map[string]int64{}, SitesHit: map[string]int64{},
		Mix: map[string]int64{}, ViolationCnt: map[string]int64{}, KnownHits: map[string]int64{},
		KnownExamples: map[string]string{}, Probes: map[string]int64{},
		fpSet: map[uint64]bool{}, keySet: map[uint64]bool{}, onlyRun: -1,
	}
}

func (b *BatchResult) mix(x uint64) {
	b.curHash ^= x + 0x9e3779b97f4a7c15 + (b.curHash << 6) + (b.curHash >> 2)
}

func (b *BatchResult) beginRun(run uint64) {
	b.curRun, b.curHash = run, 0
}

func (b *BatchResult) endRun() {
	if b.trace {
		if b.RunHashes == nil {
			b.RunHashes = map[string]string{}
		}
		b.RunHashes[fmt.Sprint(b.curRun)] = fpString(b.curHash)
	}
}

func (b *BatchResult) addStats(st simrt.Stats, nontrivial bool) {
	b.Evaluations++
	b.mix(st.Fingerprint)
	b.mix(uint64(st.Draws))
	b.mix(uint64(st.Steps))
	fired := int64(0)
	for k, v := range st.Faults {
		b.Faults[k] += v
		fired += v
	}
	for k, v := range st.SitesSeen {
		b.SitesSeen[k] += v
	}
	for k, v := range st.SitesHit {
		b.SitesHit[k] += v
	}
	b.Steps += st.Steps
	if b.Extra == nil {
		b.Extra = map[string]float64{}
	}
	if float64(st.Steps) > b.Extra["max_steps_in_one_run"] {
		b.Extra["max_steps_in_one_run"] = float64(st.Steps)
	}
	if st.Overrun {
		b.Extra["runs_cut_by_step_cap"]++
	}
	b.Switches += st.Switches
	b.ClockMs += st.ClockMs
	b.ULIDs += st.ULIDs
	if nontrivial && fired > 0 {
		b.fpSet[st.Fingerprint] = true
	}
}

const maxViolationsKept = 12

// keeping reports whether the next violation would be stored with its full
// workload (the first few are; the rest are only counted). Engines use it to
// skip the expensive rendering of a workload that is not going to be kept.
func (b *BatchResult) keeping() bool {
	return b.onlyRun >= 0 || len(b.Violations) < maxViolationsKept
}

func (b *BatchResult) violation(v Violation) {
	b.mix(hashStr(v.Class + v.Detail))
	key := v.Property + "/" + v.Class
	if v.Known != "" {
		b.KnownHits[v.Known]++
		if _, ok := b.KnownExamples[v.Known]; !ok {
			b.KnownExamples[v.Known] = v.Class + ": " + v.Detail
		}
		return
	}
	b.ViolationCnt[key]++
	v.Batch = b.pos
	if b.onlyRun >= 0 {
		if int64(v.Run) == b.onlyRun {
			b.Violations = append(b.Violations, v)
		}
		return
	}
	if len(b.Violations) < maxViolationsKept {
		b.Violations = append(b.Violations, v)
	}
}

func (b *BatchResult) finish() {
	for k := range b.fpSet {
		b.Fingerprints = append(b.Fingerprints, k)
	}
	sort.Slice(b.Fingerprints, func(i, j int) bool { return b.Fingerprints[i] < b.Fingerprints[j] })
	for k := range b.keySet {
		b.WorkloadKeys = append(b.WorkloadKeys, k)
	}
	sort.Slice(b.WorkloadKeys, func(i, j int) bool { return b.WorkloadKeys[i] < b.WorkloadKeys[j] })
}

func writeJSON(path string, v any) error {
	data, err := json.MarshalIndent(v, "", " ")
	if err != nil {
		return err
	}
	return os.WriteFile(path, data, 0o644)
}

// ---------------------------------------------------------------------------
// known findings: the committed file lists ids; matchers live in code.

type knownFile struct {
	Findings []struct {
		ID       string `json:"id"`
		Property string `json:"property"`
		Status   string `json:"status"` // "known" | "fixed"
	} `json:"findings"`
}

var activeKnown = map[string]bool{}

func loadKnown(path string) {
	if path == "" {
		return
	}
	data, err := os.ReadFile(path)
	if err != nil {
		return
	}
	var kf knownFile
	if json.Unmarshal(data, &kf) != nil {
		fmt.Fprintln(os.Stderr, "worker: cannot parse known findings file")
		os.Exit(2)
	}
	for _, f := range kf.Findings {
		if f.Status == "known" {
			activeKnown[f.ID+"/"+f.Property] = true
		}
	}
}

func knownActive(id, prop string) bool { return activeKnown[id+"/"+prop] }

func fpString(x uint64) string { return fmt.Sprintf("%016x", x) }

// overrunSkipped counts single-caller runs that were cut by the step cap (only
// possible when the code under test starts goroutines of its own): their
// outcome is not a result of the call, so nothing is compared.
var overrunSkipped int

// settleAborted decides what an aborted run means. In the concurrent variants
// the engines report deadlock / overrun themselves (C13). In a single-caller
// run an abort can only happen among goroutines the call itself started: if
// they all block, the call never returns under this (legal) schedule - which
// breaks every property about its result; a run cut by the step cap says
// nothing and is skipped (counted).
func settleAborted(props []string, multi bool, mm []mismatch, st simrt.Stats) []mismatch {
	if !st.Aborted || multi {
		return mm
	}
	if st.Deadlock {
		out := make([]mismatch, 0, len(props))
		for _, p := range props {
			out = append(out, mismatch{prop: p, class: "liveness.deadlock", detail: "the goroutines started by the call all block under this schedule: the call never returns"})
		}
		return out
	}
	overrunSkipped++
	return nil
}
