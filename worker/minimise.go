package main

// Minimisation (DESIGN.md §5): structure-aware reduction of the workload,
// then delta debugging of the schedule tape towards 0 (canonical). Every
// candidate is re-executed against the real code; it is kept only if it shows
// the same violation class and the same known/unknown status.

import (
	"encoding/json"
	"os"
	"os/exec"
	"time"

	"verifsim/simrt"
)

type minBudget struct {
	execs    int
	deadline time.Time
}

func (b *minBudget) ok() bool {
	return b.execs < 2500 && time.Now().Before(b.deadline)
}

// modelCandidates yields smaller variants of a plan.
func modelCandidates(m *Model) []*Model {
	var out []*Model
	// drop a type
	for i := range m.Types {
		c := m.clone()
		c.Types = append(c.Types[:i], c.Types[i+1:]...)
		out = append(out, c)
	}
	// drop a condition
	for i := range m.Conds {
		c := m.clone()
		c.Conds = append(c.Conds[:i], c.Conds[i+1:]...)
		out = append(out, c)
	}
	for ti, t := range m.Types {
		for ri, r := range t.Relations {
			// drop a relation
			c := m.clone()
			ct := c.Types[ti]
			ct.Relations = append(ct.Relations[:ri], ct.Relations[ri+1:]...)
			out = append(out, c)
			// drop a restriction
			for di := range r.Direct {
				if len(r.Direct) <= 1 {
					break
				}
				c := m.clone()
				cr := c.Types[ti].Relations[ri]
				cr.Direct = append(cr.Direct[:di], cr.Direct[di+1:]...)
				out = append(out, c)
			}
			// strip a condition from a restriction
			for di, d := range r.Direct {
				if d.Cond != "" {
					c := m.clone()
					c.Types[ti].Relations[ri].Direct[di].Cond = ""
					out = append(out, c)
				}
			}
			// expression reductions
			for _, ne := range exprCandidates(r.Expr) {
				c := m.clone()
				cr := c.Types[ti].Relations[ri]
				cr.Expr = ne
				if !hasThis(ne) {
					cr.Direct = nil
				}
				out = append(out, c)
			}
			// strip attribution
			if r.Module != "" || r.File != "" {
				c := m.clone()
				c.Types[ti].Relations[ri].Module, c.Types[ti].Relations[ri].File = "", ""
				out = append(out, c)
			}
		}
	}
	return out
}

func hasThis(e *Expr) bool {
	if e == nil {
		return false
	}
	if e.Kind == KThis {
		return true
	}
	for _, c := range e.Children {
		if hasThis(c) {
			return true
		}
	}
	return false
}

// exprCandidates: replace the expression by one of its children, drop one
// child of an n-ary operator, or reduce inside one child.
func exprCandidates(e *Expr) []*Expr {
	var out []*Expr
	if e == nil || !e.isOp() {
		return nil
	}
	for _, c := range e.Children {
		out = append(out, c.clone())
	}
	if e.Kind != KExcl && len(e.Children) > 2 {
		for i := range e.Children {
			c := e.clone()
			c.Children = append(c.Children[:i], c.Children[i+1:]...)
			out = append(out, c)
		}
	}
	for i, ch := range e.Children {
		for _, nc := range exprCandidates(ch) {
			c := e.clone()
			c.Children[i] = nc
			out = append(out, c)
		}
	}
	return out
}

// raceHolds re-executes a candidate in a fresh -race process (race reports are
// de-duplicated per process) and reports whether the detector fires again.
func raceHolds(c *Violation) bool {
	dir, err := os.MkdirTemp("", "verif-racemin-")
	if err != nil {
		return false
	}
	defer os.RemoveAll(dir)
	vf := dir + "/v.json"
	if writeJSON(vf, c) != nil {
		return false
	}
	cmd := exec.Command(os.Args[0], "replay", "-file", vf, "-out", dir+"/res.json")
	cmd.Env = append(os.Environ(), "GOMAXPROCS=1", "GORACE=log_path="+dir+"/race halt_on_error=0 exitcode=0 atexit_sleep_ms=0 history_size=4", "VERIF_RACELOG="+dir+"/race")
	if err := cmd.Run(); err != nil {
		return false
	}
	data, err := os.ReadFile(dir + "/res.json")
	if err != nil {
		return false
	}
	var res replayResult
	if json.Unmarshal(data, &res) != nil {
		return false
	}
	if res.Reproduced {
		c.Detail = res.Detail
		c.Fingerprint = res.Fingerprint
	}
	return res.Reproduced
}

// minimiseRace: structure-aware reduction only (drop tasks, calls, history,
// inputs), one fresh process per candidate, small budget. The tape is left as
// it is.
func minimiseRace(v *Violation) *Violation {
	cur := *v
	deadline := time.Now().Add(90 * time.Second)
	execs := 0
	if !raceHolds(&cur) {
		return v
	}
	for progress := true; progress && execs < 60 && time.Now().Before(deadline); {
		progress = false
		for _, cand := range engineCandidates(cur.Engine, cur.Workload) {
			if execs >= 60 || !time.Now().Before(deadline) {
				break
			}
			c := cur
			c.Workload = cand
			execs++
			if raceHolds(&c) {
				cur = c
				progress = true
				break
			}
		}
	}
	cur.Describe = engineDescribe(cur.Engine, cur.Workload)
	cur.Minimised = true
	return &cur
}

func minimiseViolation(v *Violation) *Violation {
	if v.RaceReport != "" {
		return minimiseRace(v)
	}
	bud := &minBudget{deadline: time.Now().Add(60 * time.Second)}
	cur := *v
	holds := func(c *Violation) bool {
		bud.execs++
		mm, _ := replayOnce(c)
		for _, x := range mm {
			if x.class == v.Class {
				k := engineKnown(c, x)
				if k == v.Known {
					c.Detail = x.detail
					return true
				}
			}
		}
		return false
	}
	if !holds(&cur) {
		return v // does not reproduce: report as is
	}
	// stage 0: try the canonical schedule outright
	{
		c := cur
		c.Sched = simrt.Config{}
		c.SchedName = "canonical"
		if holds(&c) {
			cur = c
		}
	}
	// stage 1: workload (engine specific candidate generators)
	for progress := true; progress && bud.ok(); {
		progress = false
		for _, cand := range engineCandidates(cur.Engine, cur.Workload) {
			if !bud.ok() {
				break
			}
			c := cur
			c.Workload = cand
			if holds(&c) {
				cur = c
				progress = true
				break
			}
		}
	}
	cur.Describe = engineDescribe(cur.Engine, cur.Workload)
	// stage 2: tape towards zero
	tape := append([]uint32(nil), cur.Sched.Tape...)
	if len(tape) > 0 {
		for chunk := len(tape); chunk >= 1 && bud.ok(); chunk /= 2 {
			for i := 0; i < len(tape) && bud.ok(); i += chunk {
				end := i + chunk
				if end > len(tape) {
					end = len(tape)
				}
				allZero := true
				for _, x := range tape[i:end] {
					if x != 0 {
						allZero = false
					}
				}
				if allZero {
					continue
				}
				t2 := append([]uint32(nil), tape...)
				for j := i; j < end; j++ {
					t2[j] = 0
				}
				c := cur
				c.Sched.Tape = t2
				if holds(&c) {
					tape = t2
					cur = c
				}
			}
		}
		// drop trailing zeros
		n := len(tape)
		for n > 0 && tape[n-1] == 0 {
			n--
		}
		cur.Sched.Tape = tape[:n]
	}
	cur.Minimised = true
	_, fp := replayOnce(&cur)
	cur.Fingerprint = fp
	return &cur
}

// wgCandidates: smaller variants of a wgsim workload.
func wgCandidates(raw json.RawMessage) []json.RawMessage {
	var wl wlWG
	if json.Unmarshal(raw, &wl) != nil {
		return nil
	}
	var out []json.RawMessage
	emit := func(w wlWG) {
		b, _ := json.Marshal(&w)
		out = append(out, b)
	}
	if wl.Variant == "concurrent" {
		for ti := range wl.Tasks {
			if len(wl.Tasks) <= 1 {
				break
			}
			w2 := wl
			w2.Tasks = append(append([][]int(nil), wl.Tasks[:ti]...), wl.Tasks[ti+1:]...)
			emit(w2)
		}
		for ti, list := range wl.Tasks {
			for bi := range list {
				if len(list) <= 1 {
					break
				}
				w2 := wl
				w2.Tasks = append([][]int(nil), wl.Tasks...)
				w2.Tasks[ti] = append(append([]int(nil), list[:bi]...), list[bi+1:]...)
				emit(w2)
			}
		}
	}
	if wl.Variant == "perm-operands" {
		return out // Alt must stay in step with Model; left unreduced
	}
	for _, cm := range modelCandidates(wl.Model) {
		w2 := wl
		w2.Model = cm
		if wl.Variant == "perm-types" && len(cm.Types) != len(wl.Model.Types) {
			w2.TypePerm = nil
			for i := len(cm.Types) - 1; i >= 0; i-- {
				w2.TypePerm = append(w2.TypePerm, i)
			}
		}
		emit(w2)
	}
	return out
}
