package main

// Workload generators (DESIGN.md §6). All randomness comes from an explicit
// splitmix64 stream derived from (VERIF_SEED, property, run index).

import (
	"fmt"
	"sort"
)

type rng struct{ s uint64 }

func newRNG(parts ...uint64) *rng {
	r := &rng{s: 0x1234567}
	for _, p := range parts {
		r.s ^= p + 0x9e3779b97f4a7c15 + (r.s << 6) + (r.s >> 2)
		r.next()
	}
	return r
}

func (r *rng) next() uint64 {
	r.s += 0x9e3779b97f4a7c15
	z := r.s
	z = (z ^ (z >> 30)) * 0xbf58476d1ce4e5b9
	z = (z ^ (z >> 27)) * 0x94d049bb133111eb
	return z ^ (z >> 31)
}

func (r *rng) intn(n int) int {
	if n <= 0 {
		return 0
	}
	return int(r.next() % uint64(n))
}

// chance: true with probability p/100
func (r *rng) chance(p int) bool { return r.intn(100) < p }

func (r *rng) pick(xs []string) string { return xs[r.intn(len(xs))] }

func (r *rng) perm(n int) []int {
	p := make([]int, n)
	for i := range p {
		p[i] = i
	}
	for i := n - 1; i > 0; i-- {
		j := r.intn(i + 1)
		p[i], p[j] = p[j], p[i]
	}
	return p
}

func hashStr(s string) uint64 {
	h := uint64(0xcbf29ce484222325)
	for i := 0; i < len(s); i++ {
		h ^= uint64(s[i])
		h *= 0x100000001b3
	}
	return h
}

// ---------------------------------------------------------------------------

type genKnobs struct {
	NTerm, NObj, MaxRel, MaxDepth int
	Ops                           []string // enabled operators
	PRewriteBack                  int      // % computed refs that may point anywhere (rewrite cycles)
	PTupleBack                    int      // % userset / ttu refs that may point anywhere (tuple cycles)
	PTTU, PComputed, PUserset     int
	PWild, PCond                  int
	MultiEdge                     bool // operands that expand to several edges under operators
	Invalid                       bool // dangling references, missing tuplesets
	JSONOnly                      bool // `this` in arbitrary positions / repeated
	Modular                       bool
	MaxDirect                     int // restrictions per direct assignment list (default 3)
	Large                         bool
}

var (
	termNames = []string{"user", "employee", "users", "device", "type", "bot", "u0", "u1"}
	objNames  = []string{"doc", "docs", "folder", "group", "org", "relation", "team", "Repo", "R", "RRole"}
	relPool   = []string{"a", "b", "c", "member", "viewer", "view", "owner", "define", "ab"}
	tsNames   = []string{"parent", "p", "from"}
	condNames = []string{"c1", "c2", "cond"}
)

func drawKnobs(r *rng) genKnobs {
	k := genKnobs{
		NTerm:    []int{1, 2, 3, 1, 2, 3, 5, 7}[r.intn(8)],
		NObj:     1 + r.intn(4),
		MaxRel:   1 + r.intn(5),
		MaxDepth: r.intn(4),
	}
	for _, op := range []string{KUnion, KInter, KExcl} {
		if r.chance(60) {
			k.Ops = append(k.Ops, op)
		}
	}
	k.PRewriteBack = []int{0, 0, 0, 5, 15, 40}[r.intn(6)]
	k.PTupleBack = []int{0, 10, 30, 60, 100}[r.intn(5)]
	k.PTTU = []int{0, 10, 25, 40}[r.intn(4)]
	k.PComputed = []int{10, 25, 40}[r.intn(3)]
	k.PUserset = []int{0, 15, 35, 60}[r.intn(4)]
	k.PWild = []int{0, 0, 15, 40}[r.intn(4)]
	k.PCond = []int{0, 0, 20, 50}[r.intn(4)]
	k.MultiEdge = r.chance(50)
	k.Invalid = r.chance(10)
	k.JSONOnly = r.chance(15)
	if r.chance(2) {
		// beyond the usual small sizes: thresholds and capacities (more than 8
		// relations, more than 16 nodes, deeper nesting, long restriction lists)
		k.Large = true
		k.NObj = 3 + r.intn(5)
		k.MaxRel = 6 + r.intn(7)
		k.MaxDepth = 3 + r.intn(3)
		k.MaxDirect = 4 + r.intn(6)
		k.NTerm = 2 + r.intn(4)
	}
	return k
}

type relSlot struct {
	typ  *Type
	rel  *Relation
	rank int // global order used for "backwards" decisions
}

// genModel generates a model plan.
// a few model ids shared by many generated models of a batch: stored models
// carry an id, and nothing may be keyed by it alone
var modelIDs = []string{"01HVMMBCMGZNT3SED4Z17ECXCA", "01HVMMBCMGZNT3SED4Z17ECXCB", "01J0000000000000000000000X"}

func genModel(r *rng, k genKnobs) *Model {
	m := &Model{Schema: "1.1"}
	if r.chance(30) {
		m.ID = r.pick(modelIDs)
	}
	tn := r.perm(len(termNames))[:k.NTerm]
	var terms []string
	for _, i := range tn {
		terms = append(terms, termNames[i])
		m.Types = append(m.Types, &Type{Name: termNames[i]})
	}
	on := r.perm(len(objNames))[:k.NObj]
	var objs []*Type
	for _, i := range on {
		t := &Type{Name: objNames[i]}
		objs = append(objs, t)
		m.Types = append(m.Types, t)
	}
	var conds []string
	if k.PCond > 0 {
		nc := 1 + r.intn(2)
		for i := 0; i < nc; i++ {
			conds = append(conds, condNames[i])
			m.Conds = append(m.Conds, &Cond{Name: condNames[i], Params: []Param{{Name: "x", Type: "string"}}, Expr: "x == \"1\""})
		}
	}
	// relation names per object type; tuplesets
	var slots []*relSlot
	tuplesets := map[*Type][]*Relation{}
	for _, t := range objs {
		n := 1 + r.intn(k.MaxRel)
		pi := r.perm(len(relPool))
		for j := 0; j < n; j++ {
			name := ""
			if j < len(pi) {
				name = relPool[pi[j]]
			} else {
				// more relations than the pool has names; one of them long
				name = fmt.Sprintf("rel%d", j)
				if j == len(pi) {
					name = "a_rather_long_relation_name_that_goes_on_and_on_for_more_than_sixty_four_characters_x"
				}
			}
			rel := &Relation{Name: name}
			t.Relations = append(t.Relations, rel)
			slots = append(slots, &relSlot{typ: t, rel: rel})
		}
		if k.PTTU > 0 {
			nts := 1 + r.intn(2)
			for i := 0; i < nts; i++ {
				ts := &Relation{Name: tsNames[i], Expr: &Expr{Kind: KThis}}
				np := 1
				if k.MultiEdge || r.chance(30) {
					np = 1 + r.intn(3)
				}
				seen := map[string]bool{}
				for j := 0; j < np; j++ {
					p := objs[r.intn(len(objs))]
					if seen[p.Name] && !r.chance(30) {
						continue
					}
					seen[p.Name] = true
					ref := Ref{Type: p.Name}
					if len(conds) > 0 && r.chance(k.PCond) {
						ref.Cond = r.pick(conds)
					}
					ts.Direct = append(ts.Direct, ref)
				}
				if k.Invalid && r.chance(30) {
					// a tupleset without type restrictions
					ts.Direct = nil
				}
				t.Relations = append(t.Relations, ts)
				tuplesets[t] = append(tuplesets[t], ts)
			}
		}
	}
	for i, j := range r.perm(len(slots)) {
		slots[j].rank = i
	}
	relsOf := func(t *Type) []*relSlot {
		var out []*relSlot
		for _, s := range slots {
			if s.typ == t {
				out = append(out, s)
			}
		}
		return out
	}
	// generate expressions
	for _, s := range slots {
		s := s
		usedThis := false
		var direct []Ref
		genDirect := func(under bool) {
			if direct != nil {
				return
			}
			n := 1
			if !under || k.MultiEdge {
				md := k.MaxDirect
				if md == 0 {
					md = 3
				}
				n = 1 + r.intn(md)
			}
			for i := 0; i < n; i++ {
				var ref Ref
				switch {
				case k.PUserset > 0 && r.chance(k.PUserset) && len(slots) > 0:
					// userset restriction
					cands := slots
					if !r.chance(k.PTupleBack) {
						cands = nil
						for _, o := range slots {
							if o.rank < s.rank {
								cands = append(cands, o)
							}
						}
					}
					if len(cands) == 0 {
						ref = Ref{Type: r.pick(terms)}
					} else {
						o := cands[r.intn(len(cands))]
						ref = Ref{Type: o.typ.Name, Rel: o.rel.Name}
						if k.Invalid && r.chance(20) {
							ref.Rel = "ghost"
						}
					}
				case r.chance(k.PWild):
					ref = Ref{Type: r.pick(terms), Wild: true}
				default:
					ref = Ref{Type: r.pick(terms)}
				}
				if len(conds) > 0 && r.chance(k.PCond) {
					ref.Cond = r.pick(conds)
				}
				direct = append(direct, ref)
				// conditioned + unconditioned duplicate
				if ref.Cond != "" && r.chance(40) {
					d := ref
					d.Cond = ""
					direct = append(direct, d)
				}
			}
		}
		var gen func(depth int, first bool, under bool) *Expr
		leaf := func(first, under bool) *Expr {
			// direct assignment?
			canThis := (first && !usedThis) || k.JSONOnly
			x := r.intn(100)
			switch {
			case x < k.PTTU && len(tuplesets[s.typ]) > 0:
				ts := tuplesets[s.typ][r.intn(len(tuplesets[s.typ]))]
				// computed relation must exist on every parent
				var cands []string
				for _, name := range relPool {
					ok := true
					back := false
					for _, p := range ts.Direct {
						pt := m.typeByName(p.Type)
						pr := pt.rel(name)
						if pr == nil {
							ok = false
							break
						}
						for _, o := range slots {
							if o.rel == pr && o.rank >= s.rank {
								back = true
							}
						}
					}
					if ok && (!back || r.chance(k.PTupleBack)) {
						cands = append(cands, name)
					}
				}
				if k.Invalid && r.chance(20) {
					cands = append(cands, "ghost")
				}
				if k.Invalid && r.chance(8) {
					// a tupleset relation the type does not define
					return &Expr{Kind: KTTU, Rel: r.pick(relPool), Tupleset: "nosuchtupleset"}
				}
				if k.Invalid && r.chance(25) {
					// a tupleset that is not directly assignable: a relation of the type
					// that is itself a rewrite (its metadata entry lists no type)
					for _, o := range relsOf(s.typ) {
						if o != s && o.rel.Expr != nil && o.rel.Expr.Kind != KThis && len(o.rel.Direct) == 0 && len(cands) > 0 {
							return &Expr{Kind: KTTU, Rel: r.pick(cands), Tupleset: o.rel.Name}
						}
					}
				}
				if len(cands) > 0 {
					return &Expr{Kind: KTTU, Rel: r.pick(cands), Tupleset: ts.Name}
				}
			case x < k.PTTU+k.PComputed:
				var cands []*relSlot
				for _, o := range relsOf(s.typ) {
					if o == s && !r.chance(k.PRewriteBack) {
						continue
					}
					if o.rank < s.rank || r.chance(k.PRewriteBack) {
						cands = append(cands, o)
					}
				}
				if k.Invalid && r.chance(10) {
					return &Expr{Kind: KComputed, Rel: "ghost"}
				}
				if len(cands) > 0 {
					return &Expr{Kind: KComputed, Rel: cands[r.intn(len(cands))].rel.Name}
				}
			}
			if canThis {
				usedThis = true
				genDirect(under)
				return &Expr{Kind: KThis}
			}
			// fall back: computed to an earlier relation, else this (JSON only shape avoided by caller)
			for _, o := range relsOf(s.typ) {
				if o.rank < s.rank {
					return &Expr{Kind: KComputed, Rel: o.rel.Name}
				}
			}
			return nil
		}
		gen = func(depth int, first bool, under bool) *Expr {
			if depth <= 0 || len(k.Ops) == 0 || r.chance(35) {
				return leaf(first, under)
			}
			op := r.pick(k.Ops)
			e := &Expr{Kind: op}
			n := 2
			if op != KExcl {
				n = 2 + r.intn(2)
				if k.Large {
					n = 2 + r.intn(5)
				}
			}
			for i := 0; i < n; i++ {
				u := under || op != KUnion
				c := gen(depth-1, first && i == 0, u)
				if c == nil {
					c = leaf(first && i == 0, u)
				}
				if c == nil {
					continue
				}
				e.Children = append(e.Children, c)
			}
			if op == KExcl && len(e.Children) < 2 {
				if len(e.Children) == 1 {
					return e.Children[0]
				}
				return nil
			}
			if len(e.Children) == 1 {
				return e.Children[0]
			}
			if len(e.Children) == 0 {
				return nil
			}
			return e
		}
		e := gen(k.MaxDepth, true, false)
		if e == nil {
			usedThis = true
			genDirect(false)
			e = &Expr{Kind: KThis}
		}
		s.rel.Expr = e
		s.rel.Direct = direct
	}
	if r.chance(6) {
		applyDialect(r, m, inDSLGen)
	}
	if r.chance(5) || (k.Invalid && r.chance(50)) {
		m.Present = true
	}
	return m
}

func modelKey(m *Model) string {
	// a canonical text key for distinct-model counting
	s := ""
	ts := append([]*Type(nil), m.Types...)
	sort.SliceStable(ts, func(i, j int) bool { return ts[i].Name < ts[j].Name })
	for _, t := range ts {
		s += "T" + t.Name + "{"
		rs := append([]*Relation(nil), t.Relations...)
		sort.SliceStable(rs, func(i, j int) bool { return rs[i].Name < rs[j].Name })
		for _, r := range rs {
			s += r.Name + "=" + exprKey(r.Expr) + fmt.Sprint(r.Direct) + ";"
		}
		s += "}"
	}
	return s
}

func exprKey(e *Expr) string {
	if e == nil {
		return "nil"
	}
	s := e.Kind + "(" + e.Rel + "," + e.Tupleset
	for _, c := range e.Children {
		s += "," + exprKey(c)
	}
	return s + ")"
}

// describe renders a compact human readable form of a plan (DSL-like, also
// for JSON-only shapes).
func (m *Model) describe() string {
	s := ""
	for _, t := range m.Types {
		s += "type " + t.Name + "\n"
		for _, r := range t.Relations {
			s += "  define " + r.Name + ": " + exprDSL(r.Expr, r.Direct, true) + "\n"
		}
	}
	return s
}

// genWildcardLattice: a layered model in which wildcard lists of different
// lengths are shared by several parents through computed references, usersets
// and TTUs (C11: "wildcard restrictions placed anywhere"; lists of 3, 5-7
// entries are where slices shared between nodes and edges have spare capacity).
func genWildcardLattice(r *rng) *Model {
	m := &Model{Schema: "1.1"}
	nt := 4 + r.intn(5)
	var terms []string
	for i := 0; i < nt; i++ {
		n := fmt.Sprintf("u%d", i)
		terms = append(terms, n)
		m.Types = append(m.Types, &Type{Name: n})
	}
	doc := &Type{Name: "doc"}
	m.Types = append(m.Types, doc)
	doc.Relations = append(doc.Relations, &Relation{Name: "parent", Expr: &Expr{Kind: KThis}, Direct: []Ref{{Type: "doc"}}})
	var names []string
	direct := func() []Ref {
		n := 1 + r.intn(5)
		var out []Ref
		for _, i := range r.perm(len(terms)) {
			if len(out) >= n {
				break
			}
			out = append(out, Ref{Type: terms[i], Wild: r.chance(85)})
		}
		return out
	}
	nb := 2 + r.intn(3)
	for i := 0; i < nb; i++ {
		name := fmt.Sprintf("b%d", i)
		doc.Relations = append(doc.Relations, &Relation{Name: name, Expr: &Expr{Kind: KThis}, Direct: direct()})
		names = append(names, name)
	}
	nl := 3 + r.intn(5)
	for i := 0; i < nl; i++ {
		name := fmt.Sprintf("m%d", i)
		rel := &Relation{Name: name}
		e := &Expr{Kind: KUnion}
		if r.chance(25) {
			e.Children = append(e.Children, &Expr{Kind: KThis})
			rel.Direct = direct()
			if r.chance(30) {
				rel.Direct = append(rel.Direct, Ref{Type: "doc", Rel: names[r.intn(len(names))]})
			}
		}
		nc := 2 + r.intn(2)
		for _, j := range r.perm(len(names)) {
			if nc == 0 {
				break
			}
			nc--
			switch {
			case r.chance(12):
				e.Children = append(e.Children, &Expr{Kind: KTTU, Rel: names[j], Tupleset: "parent"})
			default:
				e.Children = append(e.Children, &Expr{Kind: KComputed, Rel: names[j]})
			}
		}
		if r.chance(10) && len(e.Children) >= 2 {
			e.Kind = KExcl
			e.Children = e.Children[:2]
		}
		if len(e.Children) == 1 {
			e = e.Children[0]
		}
		rel.Expr = e
		doc.Relations = append(doc.Relations, rel)
		names = append(names, name)
	}
	return m
}

// emptyDirectUnderOperator reports whether some relation has a direct
// assignment WITHOUT type restrictions as a direct child of an intersection or
// as the base of an exclusion (the trigger shape of known finding D12).
func emptyDirectUnderOperator(m *Model) bool {
	for _, t := range m.Types {
		for _, rel := range t.Relations {
			if len(rel.Direct) > 0 {
				continue
			}
			found := false
			var rec func(e *Expr)
			rec = func(e *Expr) {
				if e == nil {
					return
				}
				if e.Kind == KInter {
					for _, c := range e.Children {
						if c.Kind == KThis {
							found = true
						}
					}
				}
				if e.Kind == KExcl && len(e.Children) > 0 && e.Children[0].Kind == KThis {
					found = true
				}
				for _, c := range e.Children {
					rec(c)
				}
			}
			rec(rel.Expr)
			if found {
				return true
			}
		}
	}
	return false
}

// edgelessOperator: some relation without type restrictions contains an
// intersection or exclusion all of whose operands are direct assignments.
func edgelessOperator(m *Model) bool {
	for _, t := range m.Types {
		for _, rel := range t.Relations {
			if len(rel.Direct) > 0 {
				continue
			}
			found := false
			var rec func(e *Expr)
			rec = func(e *Expr) {
				if e == nil {
					return
				}
				if e.isOp() && len(e.Children) > 0 { // union too: `([] or []) or a` (met by the thorough tier)
					all := true
					for _, c := range e.Children {
						if c.Kind != KThis {
							all = false
						}
					}
					if all {
						found = true
					}
				}
				for _, c := range e.Children {
					rec(c)
				}
			}
			rec(rel.Expr)
			if found {
				return true
			}
		}
	}
	return false
}

// injectEmptyDirect removes the type restrictions of one relation whose direct
// assignment sits directly under an intersection or is the base of an
// exclusion (a shape only JSON/protobuf can express). Returns false when the
// model has no such relation.
// injectUnsetOperand replaces one operand of one operator by an unset userset
// (JSON: {}): the model is malformed and must be refused - an operand that
// produces no edges must not simply disappear from an intersection or from the
// base of an exclusion.
func injectUnsetOperand(r *rng, m *Model) bool {
	var ops []*Expr
	for _, t := range m.Types {
		for _, rel := range t.Relations {
			var rec func(e *Expr)
			rec = func(e *Expr) {
				if e == nil {
					return
				}
				if e.isOp() && len(e.Children) >= 2 {
					ops = append(ops, e)
				}
				for _, c := range e.Children {
					rec(c)
				}
			}
			rec(rel.Expr)
		}
	}
	if len(ops) == 0 {
		return false
	}
	e := ops[r.intn(len(ops))]
	i := r.intn(len(e.Children))
	if e.Kind == KExcl && r.chance(70) {
		i = 0
	}
	if e.Children[i].Kind == KThis {
		return false // (the direct assignment of the relation is referred to by position)
	}
	e.Children[i] = &Expr{Kind: KUnset}
	return true
}

func injectEmptyDirect(r *rng, m *Model) bool {
	var cands []*Relation
	for _, t := range m.Types {
		for _, rel := range t.Relations {
			if len(rel.Direct) == 0 {
				continue
			}
			saved := rel.Direct
			rel.Direct = nil
			probe := &Model{Types: []*Type{{Name: t.Name, Relations: []*Relation{rel}}}}
			if emptyDirectUnderOperator(probe) {
				cands = append(cands, rel)
			}
			rel.Direct = saved
		}
	}
	if len(cands) == 0 {
		return false
	}
	cands[r.intn(len(cands))].Direct = nil
	return true
}

// genSeparatorCollision: names that are concatenations of other names with a
// separator DSL identifiers may contain (_ - . /), arranged so that
// tupleset+sep+relation (or type+sep+relation) of two different operands spell
// the same string: ("p"+sep+"q", "r") vs ("p", "q"+sep+"r"). Anything keyed by
// a joined string instead of the pair confuses them.
func genSeparatorCollision(r *rng) *Model {
	sep := []string{"_", "-", ".", "/"}[r.intn(4)]
	terms := []string{"user", "employee", "device"}
	m := &Model{Schema: "1.1"}
	for _, t := range terms {
		m.Types = append(m.Types, &Type{Name: t})
	}
	p, q, rr := "p", "q", "r"
	ts1, ts2 := p+sep+q, p
	rel1, rel2 := rr, q+sep+rr
	par := &Type{Name: "par"}
	pick := func() []Ref {
		n := 1 + r.intn(2)
		var out []Ref
		for _, i := range r.perm(len(terms))[:n] {
			out = append(out, Ref{Type: terms[i], Wild: r.chance(20)})
		}
		return out
	}
	par.Relations = append(par.Relations,
		&Relation{Name: rel1, Expr: &Expr{Kind: KThis}, Direct: pick()},
		&Relation{Name: rel2, Expr: &Expr{Kind: KThis}, Direct: pick()})
	doc := &Type{Name: "doc"}
	doc.Relations = append(doc.Relations,
		&Relation{Name: ts1, Expr: &Expr{Kind: KThis}, Direct: []Ref{{Type: "par"}}},
		&Relation{Name: ts2, Expr: &Expr{Kind: KThis}, Direct: []Ref{{Type: "par"}}})
	a := &Expr{Kind: KTTU, Rel: rel1, Tupleset: ts1}
	b := &Expr{Kind: KTTU, Rel: rel2, Tupleset: ts2}
	ops := []string{KInter, KExcl, KUnion}
	e := &Expr{Kind: ops[r.intn(len(ops))], Children: []*Expr{a, b}}
	if r.chance(50) {
		e.Children[0], e.Children[1] = e.Children[1], e.Children[0]
	}
	rel := &Relation{Name: "both", Expr: e}
	if r.chance(40) {
		rel.Expr = &Expr{Kind: KUnion, Children: []*Expr{{Kind: KThis}, e}}
		rel.Direct = pick()
	}
	doc.Relations = append(doc.Relations, rel)
	// the same idea at the type#relation level: type "par"+sep+"x" relation "y"
	// versus type "par" relation "x"+sep+"y"
	if r.chance(50) {
		t2 := &Type{Name: "par" + sep + "x", Relations: []*Relation{{Name: "y", Expr: &Expr{Kind: KThis}, Direct: pick()}}}
		par.Relations = append(par.Relations, &Relation{Name: "x" + sep + "y", Expr: &Expr{Kind: KThis}, Direct: pick()})
		doc.Relations = append(doc.Relations, &Relation{Name: "mix", Expr: &Expr{Kind: []string{KInter, KUnion}[r.intn(2)], Children: []*Expr{{Kind: KThis}, {Kind: KComputed, Rel: "both"}}},
			Direct: []Ref{{Type: t2.Name, Rel: "y"}, {Type: "par", Rel: "x" + sep + "y"}}})
		m.Types = append(m.Types, t2)
	}
	m.Types = append(m.Types, par, doc)
	return m
}

// ---------------------------------------------------------------------------
// size and depth families: thresholds and capacities that small models never
// reach (nesting deeper than 16, paths longer than 100 edges, more than 32
// types or 12 relations, long call histories).

// sizeNear draws a size from [lo, hi]: mostly from the cheap lower part of the
// range [lo, mid], sometimes right at a capacity or threshold an implementation
// is likely to carry (powers of two, 100, 1000: one below, at, one above),
// sometimes anywhere above mid.
func sizeNear(r *rng, lo, mid, hi int) int {
	switch c := r.intn(10); {
	case c < 5:
		return lo + r.intn(mid-lo+1)
	case c < 8:
		var cand []int
		for _, t := range []int{16, 32, 64, 100, 128, 200, 256, 500, 512, 1000, 1024} {
			for _, d := range []int{-1, 0, 1} {
				if t+d >= lo && t+d <= hi {
					cand = append(cand, t+d)
				}
			}
		}
		if len(cand) > 0 {
			return cand[r.intn(len(cand))]
		}
	}
	if hi > mid {
		return mid + 1 + r.intn(hi-mid)
	}
	return lo + r.intn(hi-lo+1)
}

// genDeepNesting: one relation whose rewrite is nested 10-140 operators deep
// (mostly 10-40; thresholds 16, 32, 64, 100, 128 and their neighbours).
func genDeepNesting(r *rng) *Model {
	m := &Model{Schema: "1.1"}
	m.Types = append(m.Types, &Type{Name: "user"}, &Type{Name: "employee"})
	doc := &Type{Name: "doc"}
	doc.Relations = append(doc.Relations,
		&Relation{Name: "b", Expr: &Expr{Kind: KThis}, Direct: []Ref{{Type: "user"}, {Type: "employee"}}},
		&Relation{Name: "c", Expr: &Expr{Kind: KThis}, Direct: []Ref{{Type: "user"}}})
	depth := sizeNear(r, 10, 40, 140)
	ops := []string{KUnion, KUnion, KInter, KExcl}
	leaf := func() *Expr { return &Expr{Kind: KComputed, Rel: []string{"b", "c"}[r.intn(2)]} }
	e := leaf()
	for i := 0; i < depth; i++ {
		op := ops[r.intn(len(ops))]
		if r.chance(50) {
			e = &Expr{Kind: op, Children: []*Expr{e, leaf()}}
		} else {
			e = &Expr{Kind: op, Children: []*Expr{leaf(), e}}
		}
	}
	rel := &Relation{Name: "deep", Expr: e}
	if r.chance(40) {
		// direct assignment in first position all the way down (DSL expressible)
		rel.Expr = &Expr{Kind: KUnion, Children: []*Expr{{Kind: KThis}, e}}
		rel.Direct = []Ref{{Type: "user"}}
	}
	doc.Relations = append(doc.Relations, rel)
	m.Types = append(m.Types, doc)
	return m
}

// genLongChain: a chain of 90-300 relations (computed, with a few TTU and
// userset hops; mostly 90-160): simple paths longer than 100, 128, 256 edges.
func genLongChain(r *rng) *Model {
	m := &Model{Schema: "1.1"}
	m.Types = append(m.Types, &Type{Name: "user"})
	doc := &Type{Name: "doc"}
	doc.Relations = append(doc.Relations, &Relation{Name: "parent", Expr: &Expr{Kind: KThis}, Direct: []Ref{{Type: "doc"}}})
	n := sizeNear(r, 90, 160, 300)
	name := func(i int) string { return fmt.Sprintf("r%03d", i) }
	for i := 0; i < n; i++ {
		rel := &Relation{Name: name(i)}
		switch {
		case i == n-1:
			rel.Expr = &Expr{Kind: KThis}
			rel.Direct = []Ref{{Type: "user"}}
		case r.chance(5):
			rel.Expr = &Expr{Kind: KTTU, Rel: name(i + 1), Tupleset: "parent"}
		case r.chance(5):
			rel.Expr = &Expr{Kind: KThis}
			rel.Direct = []Ref{{Type: "doc", Rel: name(i + 1)}}
		case r.chance(10):
			rel.Expr = &Expr{Kind: KUnion, Children: []*Expr{{Kind: KComputed, Rel: name(i + 1)}, {Kind: KComputed, Rel: name(n - 1)}}}
		default:
			rel.Expr = &Expr{Kind: KComputed, Rel: name(i + 1)}
		}
		doc.Relations = append(doc.Relations, rel)
	}
	m.Types = append(m.Types, doc)
	return m
}

// genManyTypes: 33-260 type definitions (mostly 33-100), most of them tiny.
func genManyTypes(r *rng) *Model {
	m := &Model{Schema: "1.1"}
	m.Types = append(m.Types, &Type{Name: "user"})
	n := sizeNear(r, 33, 100, 260)
	for i := 0; i < n; i++ {
		t := &Type{Name: fmt.Sprintf("t%03d", (i*37)%n)}
		if m.typeByName(t.Name) != nil {
			t.Name = fmt.Sprintf("u%03d", i)
		}
		for j := 0; j < r.intn(3); j++ {
			rel := &Relation{Name: []string{"a", "b", "c"}[j], Expr: &Expr{Kind: KThis}, Direct: []Ref{{Type: "user"}}}
			if j > 0 && r.chance(50) {
				rel.Expr = &Expr{Kind: KUnion, Children: []*Expr{{Kind: KThis}, {Kind: KComputed, Rel: "a"}}}
			}
			t.Relations = append(t.Relations, rel)
		}
		m.Types = append(m.Types, t)
	}
	return m
}

// genManyRestrictions: one or two relations with 40-300 type restrictions (so
// that a relation / operator node has far more edges than any fixture), among
// them usersets and public types, next to a tuple to userset whose targets
// coincide with directly assignable usersets of the same relation.
func genManyRestrictions(r *rng) *Model {
	m := &Model{Schema: "1.1"}
	m.Types = append(m.Types, &Type{Name: "user"})
	group := &Type{Name: "group", Relations: []*Relation{{Name: "member", Expr: &Expr{Kind: KThis}, Direct: []Ref{{Type: "user"}}}}}
	m.Types = append(m.Types, group)
	n := []int{40, 63, 64, 65, 70, 100, 130, 200, 300}[r.intn(9)]
	public := r.chance(35) // most restrictions are public types (T:*)
	var fill []Ref
	for i := 0; i < n; i++ {
		t := &Type{Name: fmt.Sprintf("t%03d", i)}
		if public && r.chance(90) {
			fill = append(fill, Ref{Type: t.Name, Wild: true})
		} else if r.chance(20) {
			t.Relations = append(t.Relations, &Relation{Name: "member", Expr: &Expr{Kind: KThis}, Direct: []Ref{{Type: "user"}}})
			fill = append(fill, Ref{Type: t.Name, Rel: "member"})
		} else {
			fill = append(fill, Ref{Type: t.Name, Wild: r.chance(5)})
		}
		m.Types = append(m.Types, t)
	}
	overlap := Ref{Type: "group", Rel: "member"}
	direct := append([]Ref(nil), fill...)
	switch r.intn(4) {
	case 0:
		direct = append([]Ref{overlap}, direct...)
	case 1:
		direct = append(direct, overlap)
	case 2:
		k := r.intn(len(direct))
		direct = append(direct[:k:k], append([]Ref{overlap}, direct[k:]...)...)
	}
	parents := []Ref{{Type: "group"}}
	if r.chance(40) {
		parents = append(parents, Ref{Type: "t001"})
		if mt := m.typeByName("t001"); len(mt.Relations) == 0 {
			mt.Relations = append(mt.Relations, &Relation{Name: "member", Expr: &Expr{Kind: KThis}, Direct: []Ref{{Type: "user"}}})
		}
	}
	doc := &Type{Name: "doc"}
	doc.Relations = append(doc.Relations, &Relation{Name: "parent", Expr: &Expr{Kind: KThis}, Direct: parents})
	ttu := &Expr{Kind: KTTU, Rel: "member", Tupleset: "parent"}
	var expr *Expr
	switch r.intn(4) {
	case 0:
		expr = &Expr{Kind: KUnion, Children: []*Expr{{Kind: KThis}, ttu}}
	case 1:
		expr = &Expr{Kind: KUnion, Children: []*Expr{{Kind: KThis}, ttu, {Kind: KComputed, Rel: "owner"}}}
	case 2:
		expr = &Expr{Kind: KExcl, Children: []*Expr{{Kind: KThis}, ttu}}
	default:
		expr = &Expr{Kind: KUnion, Children: []*Expr{{Kind: KThis}, {Kind: KInter, Children: []*Expr{ttu, {Kind: KComputed, Rel: "owner"}}}}}
	}
	doc.Relations = append(doc.Relations, &Relation{Name: "owner", Expr: &Expr{Kind: KThis}, Direct: []Ref{{Type: "user"}}})
	doc.Relations = append(doc.Relations, &Relation{Name: "viewer", Expr: expr, Direct: direct})
	if r.chance(40) || public {
		// a second wide relation, plain, and a relation that reaches the
		// restrictions of both over two paths
		cut := len(fill) / 2
		if r.chance(50) {
			cut = 0
		}
		doc.Relations = append(doc.Relations, &Relation{Name: "editor", Expr: &Expr{Kind: KThis}, Direct: append([]Ref(nil), fill[cut:]...)})
		doc.Relations = append(doc.Relations, &Relation{Name: "reader", Expr: &Expr{Kind: KUnion, Children: []*Expr{{Kind: KComputed, Rel: "editor"}, {Kind: KComputed, Rel: "viewer"}}}})
	}
	m.Types = append(m.Types, doc)
	return m
}

// genEmptyRelationName: a relation literally named "" (JSON / protobuf only)
// and userset restrictions on it - the relation branch of the restriction's
// oneof is set, to the empty string. Which branch is set decides what kind of
// restriction it is, not the value.
func genEmptyRelationName(r *rng) *Model {
	m := &Model{Schema: "1.1"}
	m.Types = append(m.Types, &Type{Name: "user"}, &Type{Name: "employee"})
	group := &Type{Name: "group"}
	group.Relations = append(group.Relations,
		&Relation{Name: "", Expr: &Expr{Kind: KThis}, Direct: []Ref{{Type: "user"}}},
		&Relation{Name: "member", Expr: &Expr{Kind: KUnion, Children: []*Expr{{Kind: KThis}, {Kind: KComputed, Rel: ""}}}, Direct: []Ref{{Type: "employee"}}})
	doc := &Type{Name: "doc"}
	doc.Relations = append(doc.Relations,
		&Relation{Name: "viewer", Expr: &Expr{Kind: KThis}, Direct: []Ref{{Type: "group", EmptyRel: true}}},
		&Relation{Name: "editor", Expr: &Expr{Kind: KThis}, Direct: []Ref{{Type: "group", EmptyRel: true}, {Type: "group"}, {Type: "group", Rel: "member"}}},
		&Relation{Name: "both", Expr: &Expr{Kind: []string{KInter, KUnion, KExcl}[r.intn(3)], Children: []*Expr{{Kind: KComputed, Rel: "viewer"}, {Kind: KComputed, Rel: "editor"}}}})
	if r.chance(50) {
		doc.Relations = append(doc.Relations, &Relation{Name: "", Expr: &Expr{Kind: KThis}, Direct: []Ref{{Type: "doc", EmptyRel: true}, {Type: "user", Wild: r.chance(50)}}})
	}
	if r.chance(35) {
		// ... or the relation named "" does not exist on the type the restrictions
		// point at: a userset on an undefined relation, not a restriction to the
		// type itself
		group.Relations = []*Relation{{Name: "member", Expr: &Expr{Kind: KThis}, Direct: []Ref{{Type: "employee"}}}}
	}
	m.Types = append(m.Types, group, doc)
	return m
}

// genOperatorLattice: one base relation with several types consumed by several
// intersections and exclusions, each of which keeps another part of its types
// (whatever an operator does to the map of one operand must not reach the
// operand's own node, nor the other consumers of it).
func genOperatorLattice(r *rng) *Model {
	m := &Model{Schema: "1.1"}
	nt := 3 + r.intn(3)
	var ts []string
	for i := 0; i < nt; i++ {
		ts = append(ts, fmt.Sprintf("u%d", i))
		m.Types = append(m.Types, &Type{Name: ts[i]})
	}
	doc := &Type{Name: "doc"}
	refs := func(idx ...int) []Ref {
		var out []Ref
		for _, i := range idx {
			out = append(out, Ref{Type: ts[i%nt], Wild: r.chance(15)})
		}
		return out
	}
	all := make([]int, nt)
	for i := range all {
		all[i] = i
	}
	doc.Relations = append(doc.Relations, &Relation{Name: "base", Expr: &Expr{Kind: KThis}, Direct: refs(all...)})
	nsub := 2 + r.intn(3)
	for i := 0; i < nsub; i++ {
		var idx []int
		for j := 0; j < nt; j++ {
			if r.chance(45) {
				idx = append(idx, j)
			}
		}
		if len(idx) == 0 {
			idx = []int{i % nt}
		}
		doc.Relations = append(doc.Relations, &Relation{Name: fmt.Sprintf("s%d", i), Expr: &Expr{Kind: KThis}, Direct: refs(idx...)})
	}
	for i := 0; i < nsub+1+r.intn(3); i++ {
		a := &Expr{Kind: KComputed, Rel: "base"}
		if r.chance(20) {
			a = &Expr{Kind: KComputed, Rel: fmt.Sprintf("s%d", r.intn(nsub))}
		}
		bx := &Expr{Kind: KComputed, Rel: fmt.Sprintf("s%d", r.intn(nsub))}
		kind := []string{KInter, KInter, KExcl, KUnion}[r.intn(4)]
		ch := []*Expr{a, bx}
		if kind != KExcl && r.chance(40) {
			ch = []*Expr{bx, a}
		}
		if kind == KInter && r.chance(30) {
			ch = append(ch, &Expr{Kind: KComputed, Rel: fmt.Sprintf("s%d", r.intn(nsub))})
		}
		doc.Relations = append(doc.Relations, &Relation{Name: fmt.Sprintf("x%d", i), Expr: &Expr{Kind: kind, Children: ch}})
	}
	// consumers of the consumers
	doc.Relations = append(doc.Relations, &Relation{Name: "top", Expr: &Expr{Kind: KUnion, Children: []*Expr{{Kind: KComputed, Rel: "x0"}, {Kind: KComputed, Rel: "base"}}}})
	for i, j := range r.perm(len(doc.Relations)) {
		doc.Relations[i], doc.Relations[j] = doc.Relations[j], doc.Relations[i]
	}
	m.Types = append(m.Types, doc)
	return m
}

// genOddNames: the separator-collision idea with characters only the JSON /
// protobuf form can carry in a name (validation allows everything but
// ':', '#', '@' and whitespace): "a,b" next to "a" and "b", as types, public
// types and relations.
func genOddNames(r *rng) *Model {
	sep := []string{",", ",", ",", "|", ";", "+", "=", "$", "~", "!"}[r.intn(10)] // "," is what code joins lists with
	a, b := "a", "b"
	if r.chance(40) {
		a, b = "Repo", "Role" // upper case, prefixes of library-internal markers such as "R#"
	}
	ab := a + sep + b
	if r.chance(30) {
		// a name that ends in the characters of the wildcard suffix
		// (not ":*" itself: a type named "a:*" next to type "a" has the label of a's wildcard node)
		ab = a + []string{":", "*", "::", "*:"}[r.intn(4)]
	} else if r.chance(15) {
		// a user type whose name carries the library's internal marker in the
		// middle or at its end (no type "HR" / "X" exists, so no label is ambiguous)
		ab = []string{"HR#staff", "XR#", "a#R#b"}[r.intn(3)]
	}
	m := &Model{Schema: "1.1"}
	for _, n := range []string{a, b, ab} {
		m.Types = append(m.Types, &Type{Name: n})
	}
	pub := func(names ...string) []Ref {
		var out []Ref
		for _, n := range names {
			out = append(out, Ref{Type: n, Wild: r.chance(70)})
		}
		return out
	}
	doc := &Type{Name: []string{"doc", "R", "Repo"}[r.intn(3)]}
	if m.typeByName(doc.Name) != nil {
		doc.Name = "doc"
	}
	doc.Relations = append(doc.Relations,
		&Relation{Name: "x", Expr: &Expr{Kind: KThis}, Direct: pub(a, b)},
		&Relation{Name: "y", Expr: &Expr{Kind: KThis}, Direct: pub(ab)},
		&Relation{Name: "z", Expr: &Expr{Kind: []string{KUnion, KInter}[r.intn(2)], Children: []*Expr{{Kind: KComputed, Rel: "x"}, {Kind: KComputed, Rel: "y"}}}},
		&Relation{Name: "w", Expr: &Expr{Kind: KUnion, Children: []*Expr{{Kind: KThis}, {Kind: KComputed, Rel: "x"}}}, Direct: []Ref{{Type: doc.Name, Rel: "w"}, {Type: ab, Wild: true}}},
		&Relation{Name: "pw", Expr: &Expr{Kind: KThis}, Direct: []Ref{{Type: ab, Wild: true}}},
		&Relation{Name: "pp", Expr: &Expr{Kind: KThis}, Direct: []Ref{{Type: ab}}},
		&Relation{Name: "pq", Expr: &Expr{Kind: KInter, Children: []*Expr{{Kind: KComputed, Rel: "pw"}, {Kind: KComputed, Rel: "pp"}}}},
		&Relation{Name: "member", Expr: &Expr{Kind: KUnion, Children: []*Expr{{Kind: KThis}, {Kind: KComputed, Rel: "owner"}}}, Direct: []Ref{{Type: a}, {Type: doc.Name, Rel: "owner"}}},
		&Relation{Name: "owner", Expr: &Expr{Kind: KUnion, Children: []*Expr{{Kind: KThis}, {Kind: KComputed, Rel: "x"}}}, Direct: []Ref{{Type: b, Wild: true}, {Type: doc.Name, Rel: "member"}}})
	m.Types = append(m.Types, doc)
	return m
}

// injectAliasing makes the protobuf rendering share messages: one relation's
// rewrite IS another relation's rewrite, or an operand IS its previous sibling.
// The content of the model does not change (the plan repeats the content).
func exprSize(e *Expr) int {
	if e == nil {
		return 0
	}
	n := 1
	for _, c := range e.Children {
		n += exprSize(c)
	}
	return n
}

// addRelationlessParent returns a copy of m in which the tupleset of one tuple
// to userset allows one more parent type, appended at the end, that does not
// define the computed relation (the builders reject that after having linked
// the good parents), or nil if m has no tuple to userset.
func addRelationlessParent(r *rng, m *Model) *Model {
	c := m.clone()
	type hit struct {
		t *Type
		e *Expr
	}
	var hits []hit
	for _, t := range c.Types {
		for _, rel := range t.Relations {
			var rec func(e *Expr)
			rec = func(e *Expr) {
				if e == nil {
					return
				}
				if e.Kind == KTTU {
					hits = append(hits, hit{t, e})
				}
				for _, ch := range e.Children {
					rec(ch)
				}
			}
			rec(rel.Expr)
		}
	}
	if len(hits) == 0 {
		return nil
	}
	h := hits[r.intn(len(hits))]
	ts := h.t.rel(h.e.Tupleset)
	if ts == nil {
		return nil
	}
	name := "norel"
	for c.typeByName(name) != nil {
		name += "x"
	}
	c.Types = append(c.Types, &Type{Name: name})
	ts.Direct = append(ts.Direct, Ref{Type: name})
	return c
}

// addMidCycleFailure returns a copy of m that the weighted builder rejects in
// the middle of its traversal, while a tuple cycle is still open: a relation X
// is drawn into a tuple cycle with a self-referential relation C of m (X may
// now be assigned C's usersets and the other way round) and then refers to an
// intersection of two relations without a common user type. Whatever the
// traversal has recorded about the open cycle is left behind by the error
// path. Returns nil if m has no self-referential relation.
func addMidCycleFailure(r *rng, m *Model) *Model {
	c := m.clone()
	type at struct {
		t   *Type
		rel *Relation
	}
	var cyc, all []at
	for _, t := range c.Types {
		for _, rel := range t.Relations {
			all = append(all, at{t, rel})
			self := false
			for _, d := range rel.Direct {
				if d.Type == t.Name && d.Rel == rel.Name {
					self = true
				}
			}
			var rec func(e *Expr)
			rec = func(e *Expr) {
				if e == nil {
					return
				}
				if e.Kind == KTTU && e.Rel == rel.Name {
					if ts := t.rel(e.Tupleset); ts != nil {
						for _, d := range ts.Direct {
							if d.Type == t.Name && d.Rel == "" && !d.Wild {
								self = true
							}
						}
					}
				}
				for _, ch := range e.Children {
					rec(ch)
				}
			}
			rec(rel.Expr)
			if self {
				cyc = append(cyc, at{t, rel})
			}
		}
	}
	if len(cyc) == 0 || len(all) < 2 {
		return nil
	}
	cr := cyc[r.intn(len(cyc))]
	var x at
	for tries := 0; ; tries++ {
		x = all[r.intn(len(all))]
		if x.rel != cr.rel && exprHasThis(x.rel.Expr) {
			break
		}
		if tries > 20 {
			return nil
		}
	}
	if !exprHasThis(cr.rel.Expr) {
		return nil
	}
	x.rel.Direct = append(x.rel.Direct, Ref{Type: cr.t.Name, Rel: cr.rel.Name})
	cr.rel.Direct = append(cr.rel.Direct, Ref{Type: x.t.Name, Rel: x.rel.Name})
	// the failure, reached after the cycle
	ua, ub := "zzua", "zzub"
	c.Types = append(c.Types, &Type{Name: ua}, &Type{Name: ub})
	x.t.Relations = append(x.t.Relations,
		&Relation{Name: "zza", Expr: &Expr{Kind: KThis}, Direct: []Ref{{Type: ua}}},
		&Relation{Name: "zzb", Expr: &Expr{Kind: KThis}, Direct: []Ref{{Type: ub}}},
		&Relation{Name: "zzbroken", Expr: &Expr{Kind: KInter, Children: []*Expr{{Kind: KComputed, Rel: "zza"}, {Kind: KComputed, Rel: "zzb"}}}})
	x.rel.Direct = append(x.rel.Direct, Ref{Type: x.t.Name, Rel: "zzbroken"})
	return c
}

func exprHasThis(e *Expr) bool {
	if e == nil {
		return false
	}
	if e.Kind == KThis {
		return true
	}
	for _, ch := range e.Children {
		if exprHasThis(ch) {
			return true
		}
	}
	return false
}

// giantVariant returns a valid model with more than 18 000 relations that
// contains every type#relation label of m (all relations directly assignable
// by one terminal type): what a process may well have built before it builds m
// (size thresholds of pooled or cached state lie far above every fixture).
func giantVariant(m *Model) *Model {
	g := &Model{Schema: "1.1"}
	user := "zzuser"
	g.Types = append(g.Types, &Type{Name: user})
	for _, t := range m.Types {
		if t.Name == user {
			continue
		}
		nt := &Type{Name: t.Name}
		for _, rel := range t.Relations {
			nt.Relations = append(nt.Relations, &Relation{Name: rel.Name, Expr: &Expr{Kind: KThis}, Direct: []Ref{{Type: user}}})
		}
		g.Types = append(g.Types, nt)
	}
	for i := 0; i < 140; i++ {
		nt := &Type{Name: fmt.Sprintf("zzf%03d", i)}
		for j := 0; j < 130; j++ {
			nt.Relations = append(nt.Relations, &Relation{Name: fmt.Sprintf("r%03d", j), Expr: &Expr{Kind: KThis}, Direct: []Ref{{Type: user}}})
		}
		g.Types = append(g.Types, nt)
	}
	return g
}

// injectInterning makes 1-3 relations anywhere in the model repeat the operator
// rewrite of another relation (keeping their own type restrictions: the same
// rewrite means something else in another relation or type) and renders every
// equal operator subtree of the model as one shared message.
func injectInterning(r *rng, m *Model) bool {
	type at struct {
		t   *Type
		rel *Relation
	}
	var ops, all []at
	for _, t := range m.Types {
		for _, rel := range t.Relations {
			all = append(all, at{t, rel})
			if rel.Expr != nil && rel.Expr.isOp() && exprSize(rel.Expr) <= 12 {
				ops = append(ops, at{t, rel})
			}
		}
	}
	if len(ops) == 0 || len(all) < 2 {
		return false
	}
	src := ops[r.intn(len(ops))]
	n := 0
	for i := 0; i < 1+r.intn(3); i++ {
		dst := all[r.intn(len(all))]
		if dst.rel == src.rel || dst.rel.ShareWith != "" || src.rel.ShareWith != "" {
			continue
		}
		dst.rel.Expr = src.rel.Expr.clone()
		if len(dst.rel.Direct) == 0 {
			dst.rel.Direct = append([]Ref(nil), src.rel.Direct...)
		}
		n++
	}
	if n == 0 {
		return false
	}
	m.Intern = true
	return true
}

func injectAliasing(r *rng, m *Model) bool { return injectAliasingOpt(r, m, false) }

func containsThis(e *Expr) bool {
	if e == nil {
		return false
	}
	if e.Kind == KThis {
		return true
	}
	for _, c := range e.Children {
		if containsThis(c) {
			return true
		}
	}
	return false
}

// injectAliasingOpt with dslOnly keeps the model expressible in the DSL (a
// duplicated operand may not carry a second direct assignment).
func injectAliasingOpt(r *rng, m *Model, dslOnly bool) bool {
	done := false
	dups := 0
	for _, t := range m.Types {
		var ops []*Relation
		for _, rel := range t.Relations {
			if rel.Expr != nil && rel.Expr.isOp() {
				ops = append(ops, rel)
			}
		}
		if len(ops) > 0 && len(t.Relations) >= 2 && r.chance(60) {
			src := ops[r.intn(len(ops))]
			dst := t.Relations[r.intn(len(t.Relations))]
			if dst != src && dst.ShareWith == "" && src.ShareWith == "" {
				shared := false
				for _, o := range t.Relations {
					if o.ShareWith == dst.Name {
						shared = true
					}
				}
				if !shared {
					dst.Expr = src.Expr.clone()
					dst.Direct = append([]Ref(nil), src.Direct...)
					dst.ShareWith = src.Name
					done = true
				}
			}
		}
		for _, rel := range t.Relations {
			var rec func(e *Expr)
			rec = func(e *Expr) {
				if e == nil {
					return
				}
				if dups < 2 && (e.Kind == KUnion || e.Kind == KInter) && len(e.Children) >= 2 && r.chance(25) {
					i := 1 + r.intn(len(e.Children)-1)
					// (small subtrees only: duplicating the rest of a deep chain
					// at several levels doubles the model each time)
					if e.Children[i-1].Kind != KThis && exprSize(e.Children[i-1]) <= 6 && !(dslOnly && containsThis(e.Children[i-1])) {
						dups++
						e.Children[i] = e.Children[i-1].clone()
						e.Children[i].Dup = true
						done = true
					}
				}
				for _, c := range e.Children {
					rec(c)
				}
			}
			rec(rel.Expr)
		}
	}
	return done
}
