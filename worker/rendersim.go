package main

// rendersim: puresim's render mode - canonical DSL output (C14).

import (
	"bytes"
	"encoding/json"
	"fmt"
	"sort"
	"strings"

	openfgav1 "github.com/openfga/api/proto/openfga/v1"
	"github.com/openfga/language/pkg/go/transformer"
	"google.golang.org/protobuf/encoding/protojson"
	"google.golang.org/protobuf/proto"

	"verifsim/simrt"
)

type wlRender struct {
	Variant  string `json:"variant"` // base | perm-types | json-keys | repeat
	Model    *Model `json:"model"`
	Source   bool   `json:"source"`              // WithIncludeSourceInformation
	TypePerm []int  `json:"type_perm,omitempty"` // perm-types (modular models)
	KeySeed  uint64 `json:"key_seed,omitempty"`  // json-keys: shuffles object keys of the JSON encoding
	Repeat   int    `json:"repeat,omitempty"`
	// Poison: the model is one the printer must reject (condition stored under
	// a key that is not its name, or a direct assignment the DSL cannot place).
	// Such calls are part of the history of every later call in the process.
	Poison string `json:"poison,omitempty"`
	// Foreign: the names are ones only JSON / protobuf can carry (non-ASCII
	// letters in several normalisation forms, astral and private-use characters,
	// invalid UTF-8): the output is not DSL the parser accepts, so the parse-back
	// clauses are skipped; repeatability, order and inertness of comments stay
	Foreign bool `json:"foreign,omitempty"`
}

type renderCtx struct {
	wl        *wlRender
	pm        *openfgav1.AuthorizationModel
	canon     string
	canonErr  string
	plain     string // canonical output without source information
	plainErr  string
	isModular bool
}

func render(pm *openfgav1.AuthorizationModel, source bool) (out string, errs string) {
	defer func() {
		if r := recover(); r != nil {
			if simrt.IsAbort(r) {
				panic(r)
			}
			errs = "PANIC: " + fmt.Sprint(r)
		}
	}()
	// the caller keeps its option slices (with spare capacity, as append hands
	// them out) and passes the same ones to every call of the workload
	opts := sharedOpts(0)
	if source {
		opts = sharedOpts(1)
	} else if len(pm.GetTypeDefinitions())%2 == 1 {
		// "not requested" has two spellings: no option, or the option with false
		opts = sharedOpts(2)
	}
	s, err := transformer.TransformJSONProtoToDSL(pm, opts...)
	if err != nil {
		return "", "error: " + err.Error()
	}
	keepOutput(s)
	return s, ""
}

var optSlices [3][]transformer.TransformOption

func sharedOpts(i int) []transformer.TransformOption {
	if optSlices[i] == nil {
		optSlices[i] = make([]transformer.TransformOption, 0, 4)
		switch i {
		case 1:
			optSlices[i] = append(optSlices[i], transformer.WithIncludeSourceInformation(true))
		case 2:
			optSlices[i] = append(optSlices[i], transformer.WithIncludeSourceInformation(false))
		}
	}
	return optSlices[i]
}

func renderJSON(js string, source bool) (out string, errs string) {
	defer func() {
		if r := recover(); r != nil {
			if simrt.IsAbort(r) {
				panic(r)
			}
			errs = "PANIC: " + fmt.Sprint(r)
		}
	}()
	opts := sharedOpts(0)
	if source {
		opts = sharedOpts(1)
	}
	s, err := transformer.TransformJSONStringToDSL(js, opts...)
	if err != nil {
		return "", "error: " + err.Error()
	}
	keepOutput(*s)
	return *s, ""
}

func newRenderCtx(wl *wlRender) *renderCtx {
	c := &renderCtx{wl: wl, pm: wl.Model.toProto()}
	for _, t := range wl.Model.Types {
		if t.Module != "" {
			c.isModular = true
		}
	}
	c.canon, c.canonErr = render(proto.Clone(c.pm).(*openfgav1.AuthorizationModel), wl.Source)
	c.plain, c.plainErr = render(proto.Clone(c.pm).(*openfgav1.AuthorizationModel), false)
	return c
}

// shuffleJSON re-encodes a JSON document with every object's keys in a
// seeded random order (arrays keep their order).
func shuffleJSON(js string, seed uint64) (string, error) {
	dec := json.NewDecoder(strings.NewReader(js))
	dec.UseNumber()
	var v any
	if err := dec.Decode(&v); err != nil {
		return "", err
	}
	r := newRNG(seed)
	var buf bytes.Buffer
	var enc func(v any)
	enc = func(v any) {
		switch x := v.(type) {
		case map[string]any:
			keys := make([]string, 0, len(x))
			for k := range x {
				keys = append(keys, k)
			}
			sort.Strings(keys)
			p := r.perm(len(keys))
			buf.WriteByte('{')
			for i, pi := range p {
				if i > 0 {
					buf.WriteByte(',')
				}
				kb, _ := json.Marshal(keys[pi])
				buf.Write(kb)
				buf.WriteByte(':')
				if r.chance(30) {
					buf.WriteByte(' ')
				}
				enc(x[keys[pi]])
			}
			buf.WriteByte('}')
		case []any:
			buf.WriteByte('[')
			for i, e := range x {
				if i > 0 {
					buf.WriteByte(',')
				}
				enc(e)
			}
			buf.WriteByte(']')
		default:
			b, _ := json.Marshal(x)
			buf.Write(b)
		}
	}
	enc(v)
	return buf.String(), nil
}

// ---------------------------------------------------------------------------
// reforder (DESIGN.md §7.8): the documented order, computed from the plan

func cmpByModule(aName, bName, aMod, bMod, aFile, bFile string) bool {
	// unattributed first; then module, file, name
	if aMod == "" && bMod == "" {
		return aName < bName
	}
	if aMod == "" {
		return true
	}
	if bMod == "" {
		return false
	}
	if aMod != bMod {
		return aMod < bMod
	}
	if aFile != bFile {
		return aFile < bFile
	}
	return aName < bName
}

func expectedOrder(m *Model, modular bool) []string {
	var seq []string
	types := append([]*Type(nil), m.Types...)
	if modular {
		sort.SliceStable(types, func(i, j int) bool {
			a, b := types[i], types[j]
			if a.Name == b.Name && a.Module == b.Module && a.File == b.File {
				return false
			}
			return cmpByModule(a.Name, b.Name, a.Module, b.Module, a.File, b.File)
		})
	}
	for _, t := range types {
		seq = append(seq, "type "+t.Name)
		rels := append([]*Relation(nil), t.Relations...)
		if modular {
			sort.SliceStable(rels, func(i, j int) bool {
				a, b := rels[i], rels[j]
				return cmpByModule(a.Name, b.Name, a.Module, b.Module, a.File, b.File)
			})
		} else {
			sort.SliceStable(rels, func(i, j int) bool { return rels[i].Name < rels[j].Name })
		}
		for _, r := range rels {
			seq = append(seq, "define "+r.Name)
		}
	}
	conds := append([]*Cond(nil), m.Conds...)
	sort.SliceStable(conds, func(i, j int) bool {
		a, b := conds[i], conds[j]
		return cmpByModule(a.Name, b.Name, a.Module, b.Module, a.File, b.File)
	})
	for _, c := range conds {
		ps := append([]Param(nil), c.Params...)
		sort.SliceStable(ps, func(i, j int) bool { return ps[i].Name < ps[j].Name })
		names := make([]string, len(ps))
		for i, p := range ps {
			names[i] = p.Name
		}
		seq = append(seq, "condition "+c.Name+"("+strings.Join(names, ",")+")")
	}
	return seq
}

func scrapeOrder(dsl string) []string {
	var seq []string
	for _, line := range strings.Split(dsl, "\n") {
		if i := strings.Index(line, " #"); i >= 0 {
			line = line[:i]
		}
		switch {
		case strings.HasPrefix(line, "type "):
			seq = append(seq, "type "+strings.TrimSpace(strings.TrimPrefix(line, "type ")))
		case strings.HasPrefix(line, "    define "):
			rest := strings.TrimPrefix(line, "    define ")
			if i := strings.Index(rest, ":"); i >= 0 {
				seq = append(seq, "define "+rest[:i])
			}
		case strings.HasPrefix(line, "condition "):
			rest := strings.TrimPrefix(line, "condition ")
			name := rest
			var params []string
			if i := strings.Index(rest, "("); i >= 0 {
				name = rest[:i]
				if j := strings.Index(rest, ")"); j > i {
					for _, p := range strings.Split(rest[i+1:j], ",") {
						p = strings.TrimSpace(p)
						if k := strings.Index(p, ":"); k >= 0 {
							params = append(params, p[:k])
						}
					}
				}
			}
			seq = append(seq, "condition "+name+"("+strings.Join(params, ",")+")")
		}
	}
	return seq
}

func stripComments(dsl string) string {
	lines := strings.Split(dsl, "\n")
	for i, l := range lines {
		if j := strings.Index(l, " #"); j >= 0 {
			lines[i] = l[:j]
		}
	}
	return strings.Join(lines, "\n")
}

func (c *renderCtx) check(cfg simrt.Config) ([]mismatch, simrt.Stats, string) {
	mm, st, summary := c.check0(cfg)
	if msg := keptOutputsChanged(); msg != "" {
		mm = append(mm, mismatch{"C14", "render.changed_later", "", msg})
	}
	return settleAborted([]string{"C14"}, false, mm, st), st, summary
}

// Every string the printer has returned in this workload is kept as returned
// (no copy) next to a private copy: an output that aliases memory the printer
// goes on using (a pooled buffer behind an unsafe string) changes when a later
// call renders something else - the plain and the commented form of one model
// differ in length and content.
type keptOutput struct{ got, copy string }

var keptOutputs []keptOutput

func keepOutput(s string) {
	if len(keptOutputs) < 256 {
		keptOutputs = append(keptOutputs, keptOutput{s, strings.Clone(s)})
	}
}

func keptOutputsChanged() string {
	for i := range keptOutputs {
		if k := &keptOutputs[i]; k.got != k.copy {
			msg := "a DSL text returned by an earlier call changed after the call returned (it aliases memory the printer went on using): " + diffAt(k.copy, k.got)
			keptOutputs = nil
			return msg
		}
	}
	return ""
}

func (c *renderCtx) check0(cfg simrt.Config) ([]mismatch, simrt.Stats, string) {
	var mm []mismatch
	add := func(class, f string, a ...any) {
		mm = append(mm, mismatch{"C14", class, "", fmt.Sprintf(f, a...)})
	}
	wl := c.wl
	var out, errs string
	input := proto.Clone(c.pm).(*openfgav1.AuthorizationModel)
	if wl.Model.aliased() {
		// the value of a model does not change when some of its messages are one
		// Go object (an operand that IS its sibling, a rewrite that IS another
		// relation's): the canonical text comes from a clone (no sharing), this
		// one from a freshly built object with the sharing
		input = wl.Model.toProto()
	}
	simrt.Begin(cfg)
	if wl.Model.aliased() {
		simrt.CountFault("input.aliased_messages")
	}
	switch wl.Variant {
	case "perm-types":
		input = permTypes(wl.Model, wl.TypePerm).toProto()
		simrt.CountFault("deliver.permute")
		simrt.Run([]func(){func() { out, errs = render(input, wl.Source) }})
	case "json-keys":
		b, err := protojson.Marshal(input)
		if err != nil {
			simrt.End()
			return nil, simrt.Stats{}, "marshal failed"
		}
		js, err := shuffleJSON(string(b), wl.KeySeed)
		if err != nil {
			simrt.End()
			return nil, simrt.Stats{}, "shuffle failed"
		}
		simrt.CountFault("deliver.permute")
		simrt.Run([]func(){func() { out, errs = renderJSON(js, wl.Source) }})
	case "repeat":
		simrt.CountFault("history.warm")
		simrt.Run([]func(){func() {
			for i := 0; i <= wl.Repeat; i++ {
				o, e := render(input, wl.Source)
				if i > 0 && (o != out || e != errs) {
					errs = "REPEAT-DIFFERS: " + diffAt(out, o)
					return
				}
				out, errs = o, e
			}
		}})
	default:
		simrt.Run([]func(){func() { out, errs = render(input, wl.Source) }})
	}
	st := simrt.End()
	if strings.HasPrefix(errs, "REPEAT-DIFFERS") {
		add("render.repeat_differs", "repeated calls on one model differ: %s", errs)
		return mm, st, "differs"
	}
	if strings.HasPrefix(errs, "PANIC") && wl.Poison != "panic" {
		add("render.panic", "%s", errs)
		return mm, st, "panic"
	}
	// a function of the model's content only
	if errs != c.canonErr || out != c.canon {
		what := "schedule"
		switch wl.Variant {
		case "perm-types":
			what = fmt.Sprintf("order of the type definitions %v", wl.TypePerm)
		case "json-keys":
			what = "JSON key order"
		}
		if errs != c.canonErr {
			add("render.not_canonical", "outcome depends on the %s: %q vs %q", what, errs, c.canonErr)
		} else {
			add("render.not_canonical", "output depends on the %s: %s", what, diffAt(c.canon, out))
		}
	}
	if wl.Poison != "" {
		// only canonicity of the (error) outcome is checked for these
		return mm, st, "poison: " + errs
	}
	if errs != "" {
		// every generated plan is DSL expressible
		add("render.error", "rendering a DSL expressible model failed: %s", errs)
		return mm, st, "error"
	}
	// documented order
	want := expectedOrder(wl.Model, c.isModular)
	got := scrapeOrder(out)
	if strings.Join(want, "|") != strings.Join(got, "|") {
		add("render.order", "order of names is %v, documented order is %v", got, want)
	}
	// source information comments are inert
	if wl.Source {
		if c.plainErr != "" {
			add("render.plain_error", "plain rendering failed: %s", c.plainErr)
		} else {
			if stripComments(out) != c.plain {
				add("render.comments_not_inert", "stripping comments does not give the plain output: %s", diffAt(c.plain, stripComments(out)))
			}
			ma, ea := transformer.TransformDSLToProto(out)
			mb, eb := transformer.TransformDSLToProto(c.plain)
			if wl.Foreign {
				// not DSL the grammar accepts
			} else if ea != nil || eb != nil {
				add("render.output_unparsable", "outputs do not parse: with comments %v, plain %v", ea, eb)
			} else if !proto.Equal(ma, mb) {
				add("render.comments_change_model", "commented and plain outputs parse to different models")
			}
		}
	} else if strings.Contains(out, " #") {
		add("render.unrequested_comment", "source information emitted although not requested")
	}
	return mm, st, fmt.Sprintf("%d bytes", len(out))
}

// renameForeign renames relations, conditions and condition parameters (and
// some types) of m into names beyond ASCII. The documented order is "by name":
// Go compares strings bytewise, which for valid UTF-8 is code point order.
func renameForeign(r *rng, m *Model) bool {
	pool := []string{"é", "e\u0301", "用户", "\U0001d4b6x", "\ue000x", "\uffffx", "\ufffdx", "Ωmega", "ａ", "ß", "ǆ", "z\U0001f600", "z\uffee", "viewer\xfe", "viewer\xff", "\xc3", "a\x80"}
	used := map[string]bool{}
	pick := func() string {
		for tries := 0; tries < 8; tries++ {
			n := pool[r.intn(len(pool))]
			if !used[n] {
				used[n] = true
				return n
			}
		}
		return ""
	}
	rm := map[string]string{}
	for _, t := range m.Types {
		for _, rel := range t.Relations {
			if _, ok := rm[rel.Name]; !ok && r.chance(60) {
				if n := pick(); n != "" {
					rm[rel.Name] = n
				}
			}
		}
	}
	if len(rm) == 0 {
		return false
	}
	re := func(n string) string {
		if v, ok := rm[n]; ok {
			return v
		}
		return n
	}
	var ren func(e *Expr)
	ren = func(e *Expr) {
		if e == nil {
			return
		}
		if e.Rel != "" {
			e.Rel = re(e.Rel)
		}
		if e.Tupleset != "" {
			e.Tupleset = re(e.Tupleset)
		}
		for _, c := range e.Children {
			ren(c)
		}
	}
	for _, t := range m.Types {
		for _, rel := range t.Relations {
			rel.Name = re(rel.Name)
			if rel.ShareWith != "" {
				rel.ShareWith = re(rel.ShareWith)
			}
			ren(rel.Expr)
			for i := range rel.Direct {
				if rel.Direct[i].Rel != "" {
					rel.Direct[i].Rel = re(rel.Direct[i].Rel)
				}
			}
		}
	}
	used = map[string]bool{}
	for _, c := range m.Conds {
		for i := range c.Params {
			if r.chance(50) {
				if n := pick(); n != "" {
					c.Expr = strings.ReplaceAll(c.Expr, c.Params[i].Name, "x")
					c.Params[i].Name = n
				}
			}
		}
	}
	return true
}

func renderFamily(r *rng, nRandom int, seedBase uint64) []namedSched {
	var fam []namedSched
	fam = append(fam, namedSched{"reverse-all", simrt.Config{Policies: []simrt.Policy{{Mode: "reverse", Occ: -1}}}})
	fam = append(fam, namedSched{"lastfirst-all", simrt.Config{Policies: []simrt.Policy{{Mode: "lastfirst", Occ: -1}}}})
	for k := 1; k <= 4; k++ {
		fam = append(fam, namedSched{fmt.Sprintf("rotate-all-%d", k), simrt.Config{Policies: []simrt.Policy{{Mode: "rotate", K: k, Occ: -1}}}})
	}
	for i := 0; i < nRandom; i++ {
		fam = append(fam, namedSched{fmt.Sprintf("random-%d", i), simrt.Config{
			Seed: seedBase + uint64(i)*0x9e3779b97f4a7c15 + r.next(), Generative: true,
			MapDen: []uint32{5, 5, 8}[r.intn(3)], MapKinds: 0b11110,
			// ambient faults: only matter if the printer reads a clock or the environment
			ClockDen: []uint32{0, 2, 5}[r.intn(3)], ClockKinds: 0b11110,
			// only matters if the printer starts goroutines of its own
			PreemptDen: []uint32{0, 2, 4, 16}[r.intn(4)], MaxSteps: 5_000_000}})
	}
	return fam
}

// genWideModel: more than 12 relations in one type and more than 12
// conditions, spread over several (module, file) groups and unattributed, or
// 33-100 types: sizes at which sorting algorithms and size thresholds switch.
func genWideModel(r *rng) *Model {
	if r.chance(40) {
		m := genManyTypes(r)
		attributeModel(r, m)
		return m
	}
	m := &Model{Schema: "1.1"}
	m.Types = append(m.Types, &Type{Name: "user"})
	doc := &Type{Name: "doc", Module: "core", File: "core.fga"}
	n := 13 + r.intn(28)
	for _, i := range r.perm(n) {
		rel := &Relation{Name: fmt.Sprintf("r%02d", i), Expr: &Expr{Kind: KThis}, Direct: []Ref{{Type: "user"}}}
		if i%3 == 0 && i > 0 {
			rel.Expr = &Expr{Kind: KUnion, Children: []*Expr{{Kind: KThis}, {Kind: KComputed, Rel: "r00"}}}
		}
		doc.Relations = append(doc.Relations, rel)
	}
	m.Types = append(m.Types, doc)
	nc := 13 + r.intn(15)
	for _, i := range r.perm(nc) {
		m.Conds = append(m.Conds, &Cond{Name: fmt.Sprintf("c%02d", i), Params: []Param{{Name: "x", Type: "string"}}, Expr: "x == \"1\""})
	}
	attributeModel(r, m)
	doc.Module, doc.File = "core", "core.fga"
	return m
}

func genRenderModel(r *rng) *Model {
	if r.chance(3) {
		return genWideModel(r)
	}
	m := genDSLModel(r)
	// more conditions with several parameters, names that tie
	if r.chance(60) {
		names := []string{"c1", "c2", "cond", "a", "ab"}
		have := map[string]bool{}
		for _, c := range m.Conds {
			have[c.Name] = true
		}
		for i := 0; i < 1+r.intn(3); i++ {
			n := names[r.intn(len(names))]
			if have[n] {
				continue
			}
			have[n] = true
			c := &Cond{Name: n, Expr: "x == \"1\""}
			pn := []string{"x", "y", "ab", "a", "zz"}
			for _, j := range r.perm(len(pn))[:1+r.intn(4)] {
				p := Param{Name: pn[j], Type: []string{"string", "int", "bool", "list", "map", "ipaddress", "timestamp"}[r.intn(7)]}
				if p.Type == "list" || p.Type == "map" {
					p.Generic = []string{"string", "int"}[r.intn(2)]
				}
				c.Params = append(c.Params, p)
			}
			hasX := false
			for _, p := range c.Params {
				if p.Name == "x" {
					hasX = true
				}
			}
			if !hasX {
				c.Expr = c.Params[0].Name + " == " + c.Params[0].Name
			}
			m.Conds = append(m.Conds, c)
		}
	}
	if r.chance(65) {
		attributeModel(r, m)
		if r.chance(3) {
			// a source file name of 70 000 characters: a line of the commented output
			// that is far longer than the same line of the plain output (buffers,
			// scanners with a line limit)
			long := strings.Repeat("very-long-directory-name/", 2800) + "x.fga"
			switch r.intn(3) {
			case 0:
				for _, t := range m.Types {
					if len(t.Relations) > 0 {
						rel := t.Relations[r.intn(len(t.Relations))]
						if !rel.NoMeta {
							rel.File = long
							if rel.Module == "" {
								rel.Module = "core"
							}
						}
						break
					}
				}
			case 1:
				if len(m.Types) > 0 {
					t := m.Types[r.intn(len(m.Types))]
					t.File = long
					if t.Module == "" {
						t.Module = "core"
					}
				}
			case 2:
				if len(m.Conds) > 0 {
					c := m.Conds[r.intn(len(m.Conds))]
					c.File = long
					if c.Module == "" {
						c.Module = "core"
					}
				}
			}
		}
	}
	if r.chance(10) {
		// condition expressions are taken verbatim: several lines, trailing blanks,
		// a line of blanks only (JSON / protobuf can carry them)
		for _, c := range m.Conds {
			if len(c.Params) > 0 && r.chance(50) {
				p := c.Params[0].Name
				c.Expr = []string{
					p + " == " + p + " &&  \n  " + p + " == " + p,
					p + " == " + p + " ||\n   \n  " + p + " == " + p,
					p + " == " + p + "   ",
				}[r.intn(3)]
			}
		}
	}
	if r.chance(5) {
		injectAliasingOpt(r, m, true)
	}
	return m
}

// poisonModel turns a model into one the printer rejects late (after part of
// the output has been produced).
func poisonModel(r *rng, m *Model) string {
	if len(m.Conds) >= 1 && r.chance(25) {
		// a container parameter without element type: the printer panics on it
		// (C08's subject). The caller recovers; what matters here is that the
		// panic leaves nothing behind for later calls.
		names := make([]string, len(m.Conds))
		for i, c := range m.Conds {
			names[i] = c.Name
		}
		sort.Strings(names)
		for _, c := range m.Conds {
			if c.Name == names[len(names)-1] {
				c.Params = append(c.Params, Param{Name: "zz", Type: []string{"list", "map"}[r.intn(2)]})
			}
			c.Module, c.File = "", ""
		}
		return "panic"
	}
	if len(m.Conds) >= 2 && r.chance(60) {
		// the last condition in output order is stored under a foreign key
		names := make([]string, len(m.Conds))
		for i, c := range m.Conds {
			names[i] = c.Name
		}
		sort.Strings(names)
		for _, c := range m.Conds {
			if c.Name == names[len(names)-1] {
				c.Key = c.Name
				c.Name = c.Name + "x"
			}
			c.Module, c.File = "", ""
		}
		return "cond-key"
	}
	// a second direct assignment in the last relation of the last type
	for ti := len(m.Types) - 1; ti >= 0; ti-- {
		t := m.Types[ti]
		if len(t.Relations) == 0 {
			continue
		}
		rels := append([]*Relation(nil), t.Relations...)
		sort.SliceStable(rels, func(i, j int) bool { return rels[i].Name < rels[j].Name })
		rel := rels[len(rels)-1]
		rel.Expr = &Expr{Kind: KUnion, Children: []*Expr{{Kind: KComputed, Rel: rels[0].Name}, {Kind: KInter, Children: []*Expr{{Kind: KComputed, Rel: rels[0].Name}, {Kind: KThis}}}}}
		if len(rel.Direct) == 0 {
			rel.Direct = []Ref{{Type: "user"}}
		}
		return "nesting"
	}
	return ""
}

func renderRunOne(b *BatchResult, prop string, seed, run uint64, nRandom int) {
	r := newRNG(seed, hashStr("rendersim"), hashStr(prop), run)
	keptOutputs = nil
	optSlices = [3][]transformer.TransformOption{}
	m := genRenderModel(r)
	poison := ""
	if r.chance(8) {
		poison = poisonModel(r, m)
		if poison != "" {
			b.Mix["poison_models_"+poison]++
		}
	}
	foreign := false
	if poison == "" && r.chance(4) {
		foreign = renameForeign(r, m)
		if foreign {
			b.Mix["foreign_name_models"]++
		}
	}
	b.Workloads++
	b.keySet[hashStr(modelKey(m)+fmt.Sprint(m.Conds))] = true
	for _, source := range []bool{false, true} {
		wl := &wlRender{Variant: "base", Model: m, Source: source, Poison: poison, Foreign: foreign}
		c := newRenderCtx(wl)
		if c.isModular && !source {
			b.Mix["modular_models"]++
		}
		nontriv := true
		report := func(w *wlRender, s namedSched, mm []mismatch, st simrt.Stats) {
			for _, x := range mm {
				var wj []byte
				desc := ""
				if b.keeping() {
					wj, _ = json.Marshal(w)
					desc = describeRender(w)
				}
				cfg := s.cfg
				cfg.Tape = st.TapeUsed
				cfg.Generative = false
				v := Violation{Property: prop, Engine: "rendersim", Class: x.class, Detail: x.detail, Seed: seed, Run: run,
					Workload: wj, Sched: cfg, SchedName: s.name, Fingerprint: fpString(st.Fingerprint), Describe: desc}
				b.violation(v)
			}
		}
		canonS := namedSched{"canonical", simrt.Config{}}
		mm, st, summary := c.check(canonS.cfg)
		b.addStats(st, false)
		report(wl, canonS, mm, st)
		if len(b.Samples) < 3 && run%5 == 0 && source {
			b.Samples = append(b.Samples, Sample{Workload: shortenLines(c.canon, 40), Sched: "canonical + family + permutations", Outcome: summary})
		}
		fam := renderFamily(r, nRandom, seed^run<<20)
		for _, s := range fam {
			mm, st, _ := c.check(s.cfg)
			b.addStats(st, nontriv)
			report(wl, s, mm, st)
			if r.chance(2) {
				cfg := s.cfg
				cfg.Tape = st.TapeUsed
				cfg.Generative = false
				mm2, st2, _ := c.check(cfg)
				b.RerunN++
				if st2.Fingerprint != st.Fingerprint || len(mm2) != len(mm) {
					b.RerunDiv++
				}
			}
		}
		// JSON encodings
		for i := 0; i < 2; i++ {
			w2 := *wl
			w2.Variant = "json-keys"
			w2.KeySeed = r.next()
			c2 := *c
			c2.wl = &w2
			s := fam[r.intn(len(fam))]
			mm, st, _ := c2.check(s.cfg)
			b.addStats(st, nontriv)
			report(&w2, s, mm, st)
		}
		// a twin: the same model under the other schema version - a JSON text of
		// exactly the same length and shape whose DSL differs in one line - through
		// the JSON string API right after the model itself (whatever is keyed by
		// less than the whole content of the JSON text answers with the wrong DSL)
		if poison == "" {
			twin := m.clone()
			if twin.Schema == "1.1" {
				twin.Schema = "1.2"
			} else {
				twin.Schema = "1.1"
			}
			w4 := *wl
			w4.Variant = "json-keys"
			w4.Model = twin
			w4.KeySeed = r.next()
			c4 := newRenderCtx(&w4)
			w5 := *wl
			w5.Variant = "json-keys"
			w5.KeySeed = w4.KeySeed
			c5 := *c
			c5.wl = &w5
			s := fam[r.intn(len(fam))]
			mm, st, _ := c5.check(s.cfg)
			b.addStats(st, nontriv)
			report(&w5, s, mm, st)
			mm, st, _ = c4.check(s.cfg)
			b.addStats(st, nontriv)
			report(&w4, s, mm, st)
			b.Probes["same_length_json_twins"]++
		}
		// order of the type definitions (modular models)
		if c.isModular {
			for i := 0; i < 2; i++ {
				w3 := *wl
				w3.Variant = "perm-types"
				w3.TypePerm = r.perm(len(m.Types))
				c3 := *c
				c3.wl = &w3
				s := fam[r.intn(len(fam))]
				mm, st, _ := c3.check(s.cfg)
				b.addStats(st, nontriv)
				report(&w3, s, mm, st)
				b.Probes["type_order_permutations"]++
			}
		}
		// repeated calls
		w4 := *wl
		w4.Variant = "repeat"
		w4.Repeat = 1 + r.intn(3)
		c4 := *c
		c4.wl = &w4
		s := fam[len(fam)-1]
		mm, st, _ = c4.check(s.cfg)
		b.addStats(st, nontriv)
		report(&w4, s, mm, st)
	}
}

func describeRender(w *wlRender) string {
	pm := w.Model.toProto()
	b, _ := protojson.Marshal(pm)
	s := fmt.Sprintf("variant=%s source=%v type_perm=%v\n", w.Variant, w.Source, w.TypePerm)
	for _, t := range w.Model.Types {
		s += fmt.Sprintf("type %s [module=%q file=%q]\n", t.Name, t.Module, t.File)
		for _, r := range t.Relations {
			s += fmt.Sprintf("  define %s: %s [module=%q file=%q]\n", r.Name, exprDSL(r.Expr, r.Direct, true), r.Module, r.File)
		}
	}
	for _, c := range w.Model.Conds {
		s += fmt.Sprintf("condition %s%v [module=%q file=%q]\n", c.Name, c.Params, c.Module, c.File)
	}
	_ = b
	return s
}

func renderCandidates(raw json.RawMessage) []json.RawMessage {
	var wl wlRender
	if json.Unmarshal(raw, &wl) != nil {
		return nil
	}
	var out []json.RawMessage
	emit := func(w wlRender) {
		b, _ := json.Marshal(&w)
		out = append(out, b)
	}
	if wl.Variant != "base" && wl.Variant != "perm-types" {
		w := wl
		w.Variant = "base"
		emit(w)
	}
	for _, cm := range modelCandidates(wl.Model) {
		w := wl
		w.Model = cm
		if wl.Variant == "perm-types" && len(cm.Types) != len(wl.Model.Types) {
			w.TypePerm = nil
			for i := len(cm.Types) - 1; i >= 0; i-- {
				w.TypePerm = append(w.TypePerm, i)
			}
		}
		emit(w)
	}
	// strip attribution
	for ti, t := range wl.Model.Types {
		if t.Module != "" || t.File != "" {
			w := wl
			w.Model = wl.Model.clone()
			w.Model.Types[ti].Module, w.Model.Types[ti].File = "", ""
			emit(w)
		}
	}
	for ci, c := range wl.Model.Conds {
		if c.Module != "" || c.File != "" {
			w := wl
			w.Model = wl.Model.clone()
			w.Model.Conds[ci].Module, w.Model.Conds[ci].File = "", ""
			emit(w)
		}
		if len(c.Params) > 1 {
			w := wl
			w.Model = wl.Model.clone()
			w.Model.Conds[ci].Params = w.Model.Conds[ci].Params[:len(c.Params)-1]
			emit(w)
		}
	}
	return out
}
