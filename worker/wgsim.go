package main

// wgsim: the weighted-graph engine (C04 C05 C06 C10 C11).

import (
	"encoding/json"
	"errors"
	"fmt"
	"math"
	"runtime"
	"sort"
	"strconv"
	"strings"
	"time"

	openfgav1 "github.com/openfga/api/proto/openfga/v1"
	"github.com/openfga/language/pkg/go/graph"
	"google.golang.org/protobuf/proto"

	"verifsim/simrt"
)

type wlWG struct {
	Variant  string `json:"variant"` // base | perm-types | perm-operands | concurrent
	Model    *Model `json:"model"`
	TypePerm []int  `json:"type_perm,omitempty"`
	// split-types: type number SplitType is written as two definitions of the
	// same name, relations [0,SplitAt) and [SplitAt,n)
	SplitType int      `json:"split_type,omitempty"`
	SplitAt   int      `json:"split_at,omitempty"`
	Alt       *Model   `json:"alt,omitempty"`    // perm-operands
	Others    []*Model `json:"others,omitempty"` // concurrent: additional models
	Tasks     [][]int  `json:"tasks,omitempty"`  // concurrent: per task, indexes into [Model, Others...]
	// SharedBuilder: the tasks call Build on one builder value (the builder is
	// stateless today; "concurrent builds in other goroutines" covers it)
	SharedBuilder bool `json:"shared_builder,omitempty"`
	// Prelude (base variant): models built on the same builder value before the
	// model under test (a call history).
	Prelude []*Model `json:"prelude,omitempty"`
	// ReuseObject: the caller keeps ONE model object: after the last prelude
	// build it overwrites that object in place with the model under test and
	// builds it again (a cache keyed by the identity of the input is stale then).
	ReuseObject bool `json:"reuse_object,omitempty"`
}

type wgOutcome struct {
	Err      error
	ErrClass string // "", model_cycle, tuple_cycle, invalid, other
	Panic    string
	G        *graph.WeightedAuthorizationModelGraph
	Mutated  bool // the input model was modified by Build
}

func (o *wgOutcome) accepted() bool { return o.Panic == "" && o.Err == nil && o.G != nil }

func (o *wgOutcome) verdict() string {
	switch {
	case o.Panic != "":
		return "panic"
	case o.Err != nil:
		return "rejected"
	}
	return "accepted"
}

// zeroValueBuilders: the builder is an exported struct without exported fields
// and Build used none: a caller may as well write new(Builder), &Builder{} or
// var b Builder. Every seventh workload builds that way.
var zeroValueBuilders bool

func freshBuilder() *graph.WeightedAuthorizationModelGraphBuilder {
	if zeroValueBuilders {
		return new(graph.WeightedAuthorizationModelGraphBuilder)
	}
	return graph.NewWeightedAuthorizationModelGraphBuilder()
}

func doBuild(pm *openfgav1.AuthorizationModel) (out wgOutcome) {
	return doBuildWith(freshBuilder(), pm)
}

func doBuildWith(builder *graph.WeightedAuthorizationModelGraphBuilder, pm *openfgav1.AuthorizationModel) (out wgOutcome) {
	before := proto.Clone(pm)
	defer func() {
		if r := recover(); r != nil {
			if simrt.IsAbort(r) {
				panic(r)
			}
			out = wgOutcome{Panic: fmt.Sprint(r)}
		}
		if !proto.Equal(before, pm) {
			out.Mutated = true
		}
	}()
	g, err := builder.Build(pm)
	out.G, out.Err = g, err
	if err != nil {
		switch {
		case errors.Is(err, graph.ErrModelCycle):
			out.ErrClass = "model_cycle"
		case errors.Is(err, graph.ErrTupleCycle):
			out.ErrClass = "tuple_cycle"
		case errors.Is(err, graph.ErrInvalidModel):
			out.ErrClass = "invalid"
		default:
			out.ErrClass = "other"
		}
	}
	return out
}

func execBuild(pm *openfgav1.AuthorizationModel, cfg simrt.Config) (wgOutcome, simrt.Stats) {
	simrt.Begin(cfg)
	var out wgOutcome
	simrt.Run([]func(){func() { out = doBuild(pm) }})
	st := simrt.End()
	return out, st
}

// ---------------------------------------------------------------------------
// normalisation of a built graph (no reference involved): operator nodes are
// renamed by position.

type wgSnap struct {
	names map[string]string // unique label -> positional name
	lines []string          // full snapshot
	rel   map[string]string // relation label -> "W=.. Wc=.."
	text  string
}

func fmtW(m map[string]int) string { return fmtWeights(m) }

func fmtWc(w []string) string {
	c := append([]string(nil), w...)
	sort.Strings(c)
	return "[" + strings.Join(c, ",") + "]"
}

// snapshot runs inside simulated tasks (puresim's wgraph / wgraphquery calls):
// it must not use fmt - fmt's printer pool (sync.Pool carries race
// annotations) would order the tasks by accident and hide races from the
// detector. strconv and strings only.
func snapshot(g *graph.WeightedAuthorizationModelGraph) *wgSnap {
	s := &wgSnap{names: map[string]string{}, rel: map[string]string{}}
	nodes := g.GetNodes()
	edges := g.GetEdges()
	labels := make([]string, 0, len(nodes))
	for l, n := range nodes {
		labels = append(labels, l)
		if n.GetNodeType() != graph.OperatorNode {
			s.names[l] = l
		}
	}
	sort.Strings(labels)
	var walk func(l string)
	walk = func(l string) {
		for i, e := range edges[l] {
			to := e.GetTo()
			if to.GetNodeType() == graph.OperatorNode {
				if _, ok := s.names[to.GetUniqueLabel()]; !ok {
					s.names[to.GetUniqueLabel()] = s.names[l] + "/e" + strconv.Itoa(i)
					walk(to.GetUniqueLabel())
				}
			}
		}
	}
	for _, l := range labels {
		if nodes[l].GetNodeType() == graph.SpecificTypeAndRelation {
			walk(l)
		}
	}
	orphan := 0
	for _, l := range labels {
		if _, ok := s.names[l]; !ok {
			s.names[l] = "orphan-op-" + strconv.Itoa(orphan)
			orphan++
		}
	}
	for _, l := range labels {
		n := nodes[l]
		s.lines = append(s.lines, "node "+s.names[l]+" type="+strconv.Itoa(int(n.GetNodeType()))+" label="+normLabel(n)+" W="+fmtW(n.GetWeights())+" Wc="+fmtWc(n.GetWildcards()))
		if n.GetNodeType() == graph.SpecificTypeAndRelation {
			s.rel[l] = "W=" + fmtW(n.GetWeights())
		}
		for i, e := range edges[l] {
			s.lines = append(s.lines, "edge "+s.names[l]+" #"+strconv.Itoa(i)+" -> "+s.names[e.GetTo().GetUniqueLabel()]+" kind="+strconv.Itoa(int(e.GetEdgeType()))+" ts="+e.GetTuplesetRelation()+" conds=["+strings.Join(e.GetConditions(), " ")+"] W="+fmtW(e.GetWeights())+" Wc="+fmtWc(e.GetWildcards()))
		}
	}
	sort.Strings(s.lines)
	s.text = strings.Join(s.lines, "\n")
	return s
}

func normLabel(n *graph.WeightedAuthorizationModelNode) string {
	if n.GetNodeType() == graph.OperatorNode {
		return n.GetLabel()
	}
	return n.GetLabel()
}

func firstDiff(a, b string) string {
	la, lb := strings.Split(a, "\n"), strings.Split(b, "\n")
	sa := map[string]bool{}
	for _, l := range la {
		sa[l] = true
	}
	sb := map[string]bool{}
	for _, l := range lb {
		sb[l] = true
	}
	for _, l := range la {
		if !sb[l] {
			other := ""
			// find the line with the same prefix in b
			p := strings.SplitN(l, " W=", 2)[0]
			for _, m := range lb {
				if strings.HasPrefix(m, p+" ") {
					other = m
					break
				}
			}
			return "canonical: " + l + " | this: " + other
		}
	}
	for _, l := range lb {
		if !sa[l] {
			return "canonical lacks: " + l
		}
	}
	return ""
}

// ---------------------------------------------------------------------------
// comparison with the reference

type mismatch struct {
	prop   string
	class  string
	node   string // reference node id the mismatch is anchored at
	detail string
}

func eqW(a map[string]int, b map[string]int) bool {
	if len(a) != len(b) {
		return false
	}
	for k, v := range a {
		if bv, ok := b[k]; !ok || bv != v {
			return false
		}
	}
	return true
}

func eqSet(a []string, b map[string]bool) bool {
	if len(a) != len(b) {
		return false
	}
	for _, x := range a {
		if !b[x] {
			return false
		}
	}
	return true
}

func hasDup(a []string) bool {
	seen := map[string]bool{}
	for _, x := range a {
		if seen[x] {
			return true
		}
		seen[x] = true
	}
	return false
}

var ekMap = map[graph.EdgeType]ekind{graph.DirectEdge: ekDirect, graph.RewriteEdge: ekRewrite, graph.TTUEdge: ekTTU, graph.ComputedEdge: ekComputed}
var nkMap = map[graph.NodeType]rkind{graph.SpecificType: rkType, graph.SpecificTypeAndRelation: rkRel, graph.OperatorNode: rkOp, graph.SpecificTypeWildcard: rkWild}

// compareWithRef checks an accepted graph against the reference structure,
// weights and wildcard sets.
func compareWithRef(g *graph.WeightedAuthorizationModelGraph, ref *rgraph) []mismatch {
	var mm []mismatch
	add := func(prop, class, node, f string, a ...any) {
		mm = append(mm, mismatch{prop, class, node, fmt.Sprintf(f, a...)})
	}
	nodes := g.GetNodes()
	edges := g.GetEdges()
	match := map[string]string{} // ref id -> unique label
	used := map[string]bool{}
	structOK := true
	for _, rn := range ref.order {
		if rn.kind != rkOp {
			if n, ok := nodes[rn.id]; ok {
				match[rn.id] = rn.id
				used[rn.id] = true
				if nkMap[n.GetNodeType()] != rn.kind {
					add("C10", "structure.node_type", rn.id, "node %s has type %d, expected kind %d", rn.id, n.GetNodeType(), rn.kind)
					structOK = false
				}
				if n.GetLabel() != rn.id || n.GetUniqueLabel() != rn.id {
					add("C10", "structure.node_label", rn.id, "node %s has label %q unique %q", rn.id, n.GetLabel(), n.GetUniqueLabel())
					structOK = false
				}
			} else {
				add("C10", "structure.node_missing", rn.id, "node %s missing", rn.id)
				structOK = false
			}
		}
	}
	// parallel walk for operators and edges
	var walk func(rn *rnode, ul string)
	visited := map[string]bool{}
	walk = func(rn *rnode, ul string) {
		if visited[rn.id] {
			return
		}
		visited[rn.id] = true
		ae := edges[ul]
		if len(ae) != len(rn.edges) {
			add("C10", "structure.edge_count", rn.id, "node %s has %d edges, expected %d", rn.id, len(ae), len(rn.edges))
			structOK = false
		}
		for i := 0; i < len(ae) && i < len(rn.edges); i++ {
			re, e := rn.edges[i], ae[i]
			if e.GetFrom() == nil || e.GetFrom().GetUniqueLabel() != ul {
				add("C10", "structure.edge_from", rn.id, "edge #%d of %s has wrong from node", i, rn.id)
				structOK = false
			}
			if ekMap[e.GetEdgeType()] != re.kind {
				add("C10", "structure.edge_kind", rn.id, "edge #%d of %s is %d, expected %s", i, rn.id, e.GetEdgeType(), re.kind)
				structOK = false
			}
			to := e.GetTo()
			if to == nil {
				add("C10", "structure.edge_to", rn.id, "edge #%d of %s has nil target", i, rn.id)
				structOK = false
				continue
			}
			if re.to.kind == rkOp {
				if to.GetNodeType() != graph.OperatorNode || to.GetLabel() != re.to.label {
					add("C10", "structure.edge_target", rn.id, "edge #%d of %s points to %s(%s), expected operator %s", i, rn.id, to.GetUniqueLabel(), to.GetLabel(), re.to.label)
					structOK = false
					continue
				}
				if prev, ok := match[re.to.id]; ok && prev != to.GetUniqueLabel() {
					add("C10", "structure.operator_shared", rn.id, "operator %s matched twice", re.to.id)
					structOK = false
					continue
				}
				if used[to.GetUniqueLabel()] && match[re.to.id] != to.GetUniqueLabel() {
					add("C10", "structure.operator_shared", rn.id, "operator node %s used for two occurrences", to.GetUniqueLabel())
					structOK = false
					continue
				}
				match[re.to.id] = to.GetUniqueLabel()
				used[to.GetUniqueLabel()] = true
				if !strings.HasPrefix(to.GetUniqueLabel(), re.to.label+":") {
					add("C10", "structure.operator_label", rn.id, "operator unique label %q lacks prefix %q", to.GetUniqueLabel(), re.to.label+":")
					structOK = false
				}
				walk(re.to, to.GetUniqueLabel())
			} else if to.GetUniqueLabel() != re.to.id {
				add("C10", "structure.edge_target", rn.id, "edge #%d of %s points to %s, expected %s", i, rn.id, to.GetUniqueLabel(), re.to.id)
				structOK = false
			}
			if re.kind == ekTTU && e.GetTuplesetRelation() != re.tupleset {
				add("C10", "structure.tupleset_label", rn.id, "ttu edge #%d of %s labelled %q, expected %q", i, rn.id, e.GetTuplesetRelation(), re.tupleset)
				structOK = false
			}
			if re.kind != ekTTU && e.GetTuplesetRelation() != "" {
				add("C10", "structure.tupleset_label", rn.id, "non ttu edge #%d of %s labelled %q", i, rn.id, e.GetTuplesetRelation())
				structOK = false
			}
			if re.kind == ekDirect && fmt.Sprint(e.GetConditions()) != fmt.Sprint(re.conds) {
				add("C10", "structure.conditions", rn.id, "direct edge #%d of %s has conditions %v, expected %v", i, rn.id, e.GetConditions(), re.conds)
				structOK = false
			}
		}
	}
	for _, rn := range ref.order {
		if rn.kind == rkRel {
			if ul, ok := match[rn.id]; ok {
				walk(rn, ul)
			}
		}
	}
	for l, n := range nodes {
		if !used[l] {
			add("C10", "structure.node_extra", l, "unexpected node %s (type %d)", l, n.GetNodeType())
			structOK = false
		}
	}
	for l := range edges {
		if _, ok := nodes[l]; !ok {
			add("C10", "structure.edge_orphan", l, "edge list for unknown node %s", l)
			structOK = false
		}
	}
	_ = structOK

	// the other read accessors must agree with the maps
	for l, n := range nodes {
		if got, ok := g.GetNodeByID(l); !ok || got != n {
			add("C10", "structure.accessor", l, "GetNodeByID(%s) does not return the node stored under that label", l)
		}
		es, ok := g.GetEdgesFromNode(n)
		if ok != (edges[l] != nil) || len(es) != len(edges[l]) {
			add("C10", "structure.accessor", l, "GetEdgesFromNode(%s) returns %d edges, GetEdges() has %d", l, len(es), len(edges[l]))
		} else {
			for i := range es {
				if es[i] != edges[l][i] {
					add("C10", "structure.accessor", l, "GetEdgesFromNode(%s)[%d] differs from GetEdges()", l, i)
				}
			}
		}
		for k, v := range n.GetWeights() {
			if w, ok := n.GetWeight(k); !ok || w != v {
				add("C04", "weights.accessor", l, "node %s: GetWeight(%s)=%d,%v but GetWeights() has %d", l, k, w, ok, v)
			}
		}
		if _, ok := n.GetWeight("no-such-type"); ok {
			add("C04", "weights.accessor", l, "node %s: GetWeight of an absent type reports present", l)
		}
		for i, e := range edges[l] {
			for k, v := range e.GetWeights() {
				if w, ok := e.GetWeight(k); !ok || w != v {
					add("C04", "weights.accessor", l, "edge #%d of %s: GetWeight(%s)=%d,%v but GetWeights() has %d", i, l, k, w, ok, v)
				}
			}
		}
	}
	if _, ok := g.GetNodeByID("no-such-node"); ok {
		add("C10", "structure.accessor", "", "GetNodeByID of an absent label reports present")
	}

	// weights and wildcards on matched nodes
	for _, rn := range ref.order {
		ul, ok := match[rn.id]
		if !ok {
			continue
		}
		n := nodes[ul]
		if n == nil {
			continue
		}
		if rn.kind == rkRel || rn.kind == rkOp {
			w := n.GetWeights()
			for k := range w {
				if strings.HasPrefix(k, "R#") {
					add("C04", "weights.placeholder", rn.id, "node %s exposes placeholder %s", rn.id, k)
				}
			}
			if rn.kind == rkRel && len(w) == 0 {
				add("C04", "weights.empty", rn.id, "relation %s has an empty weight map", rn.id)
			}
			if !eqW(w, rn.W) {
				add("C04", "weights.node", rn.id, "node %s weights %s, reference %s", rn.id, fmtW(w), fmtW(rn.W))
			}
		}
		wc := n.GetWildcards()
		if hasDup(wc) {
			add("C11", "wildcards.duplicate", rn.id, "node %s wildcards %v contain duplicates", rn.id, wc)
		}
		// a wildcard node trivially "reaches" itself; the statement does not say
		// whether that counts, so its own list is not compared
		if rn.kind != rkWild && !eqSet(dedup(wc), rn.Wc) {
			add("C11", "wildcards.node", rn.id, "node %s wildcards %s, reference %v", rn.id, fmtWc(wc), setKeys(rn.Wc))
		}
		ae := edges[ul]
		for i := 0; i < len(ae) && i < len(rn.edges); i++ {
			re, e := rn.edges[i], ae[i]
			if e.GetTo() == nil {
				continue
			}
			if tl, ok := match[re.to.id]; !ok || tl != e.GetTo().GetUniqueLabel() {
				continue // structure mismatch already reported
			}
			w := e.GetWeights()
			for k := range w {
				if strings.HasPrefix(k, "R#") {
					add("C04", "weights.placeholder", rn.id, "edge #%d of %s exposes placeholder %s", i, rn.id, k)
				}
			}
			if !eqW(w, re.W) {
				add("C04", "weights.edge", rn.id, "edge #%d %s->%s weights %s, reference %s", i, rn.id, re.to.id, fmtW(w), fmtW(re.W))
			}
			// reference independent clause: edge = target + hop
			if re.to.kind == rkRel || re.to.kind == rkOp {
				tw := e.GetTo().GetWeights()
				exp := map[string]int{}
				for k, v := range tw {
					if v != graph.Infinite && (e.GetEdgeType() == graph.DirectEdge || e.GetEdgeType() == graph.TTUEdge) {
						v++
					}
					exp[k] = v
				}
				if !eqW(w, exp) {
					add("C04", "weights.edge_vs_target", rn.id, "edge #%d %s->%s weights %s but target has %s", i, rn.id, re.to.id, fmtW(w), fmtW(tw))
				}
			}
			ewc := e.GetWildcards()
			if hasDup(ewc) {
				add("C11", "wildcards.duplicate", rn.id, "edge #%d of %s wildcards %v contain duplicates", i, rn.id, ewc)
			}
			if !eqSet(dedup(ewc), re.Wc) {
				add("C11", "wildcards.edge", rn.id, "edge #%d %s->%s wildcards %s, reference %v", i, rn.id, re.to.id, fmtWc(ewc), setKeys(re.Wc))
			}
		}
	}
	return mm
}

func dedup(a []string) []string {
	seen := map[string]bool{}
	var out []string
	for _, x := range a {
		if !seen[x] {
			seen[x] = true
			out = append(out, x)
		}
	}
	return out
}

var _ = math.MaxInt32

// ---------------------------------------------------------------------------
// schedules

type namedSched struct {
	name string
	cfg  simrt.Config
}

const rootSite = ":WeightedAuthorizationModelGraph.AssignWeights:"

func wgFamily(r *rng, nNodes int, nRandom int, seedBase uint64, tinyPerms bool) []namedSched {
	var fam []namedSched
	fam = append(fam, namedSched{"reverse-all", simrt.Config{Policies: []simrt.Policy{{Mode: "reverse", Occ: -1}}}})
	fam = append(fam, namedSched{"lastfirst-all", simrt.Config{Policies: []simrt.Policy{{Mode: "lastfirst", Occ: -1}}}})
	lim := nNodes
	if lim > 28 {
		lim = 28
	}
	if nNodes > 48 {
		lim = 10 // large models: a sample of the rotations
	}
	for k := 1; k < lim; k++ {
		fam = append(fam, namedSched{fmt.Sprintf("rotate-all-%d", k), simrt.Config{Policies: []simrt.Policy{{Mode: "rotate", K: k, Occ: -1}}}})
		fam = append(fam, namedSched{fmt.Sprintf("rotate-root-%d", k), simrt.Config{Policies: []simrt.Policy{{Mode: "rotate", K: k, Site: rootSite, Occ: 0}}}})
	}
	if tinyPerms && nNodes <= 6 {
		// every permutation of the DFS root site
		perm := make([]int, nNodes)
		for i := range perm {
			perm[i] = i
		}
		var rec func(i int)
		rec = func(i int) {
			if i == nNodes {
				p := append([]int(nil), perm...)
				fam = append(fam, namedSched{fmt.Sprintf("perm-root-%v", p), simrt.Config{Policies: []simrt.Policy{{Mode: "perm", Perm: p, Site: rootSite, Occ: 0}}}})
				return
			}
			for j := i; j < nNodes; j++ {
				perm[i], perm[j] = perm[j], perm[i]
				rec(i + 1)
				perm[i], perm[j] = perm[j], perm[i]
			}
		}
		rec(0)
	}
	for i := 0; i < nRandom; i++ {
		cfg := simrt.Config{
			Seed:       seedBase + uint64(i)*0x9e3779b97f4a7c15 + r.next(),
			Generative: true,
			MapDen:     []uint32{5, 5, 8, 16}[r.intn(4)],
			MapKinds:   uint32(2 + r.intn(30)), // random non-empty subset of kinds 1..4
			// only matters if the builder starts goroutines of its own
			PreemptDen: []uint32{0, 2, 4, 16}[r.intn(4)],
			MaxSteps:   5_000_000,
		}
		cfg.MapKinds &= 0b11110
		if cfg.MapKinds == 0 {
			cfg.MapKinds = 0b11110
		}
		if r.chance(60) {
			cfg.ClockDen = []uint32{2, 5, 9}[r.intn(3)]
			cfg.ClockKinds = uint32(2+r.intn(30)) & 0b11110
		}
		fam = append(fam, namedSched{fmt.Sprintf("random-%d", i), cfg})
	}
	return fam
}

// ---------------------------------------------------------------------------
// checking one (workload, schedule)

type wgCtx struct {
	canonSteps int64 // yield points the canonical build passes (a deterministic cost measure)
	wl         *wlWG
	ref        *rgraph
	pm         *openfgav1.AuthorizationModel
	canon      *wgOutcome
	csnap      *wgSnap
}

func newWGCtx(wl *wlWG) *wgCtx {
	c := &wgCtx{wl: wl}
	c.ref = buildRef(wl.Model)
	c.pm = wl.Model.toProto()
	out, st := execBuild(c.pm, simrt.Config{})
	c.canonSteps = st.SeqSteps
	c.canon = &out
	if out.accepted() {
		c.csnap = snapshot(out.G)
	}
	return c
}

// splitType returns a copy of m in which type number ti (which must have at
// least two relations) is written as TWO type definitions of the same name,
// the first k relations in one and the rest in the other - a shape only JSON /
// protobuf can express. What it means is not this harness's business; that the
// outcome does not depend on the order of the definitions is (C06).
func splitType(m *Model, ti, k int) *Model {
	c := m.clone()
	if ti < 0 || ti >= len(c.Types) || k <= 0 || k >= len(c.Types[ti].Relations) {
		return nil
	}
	t := c.Types[ti]
	second := &Type{Name: t.Name, Module: t.Module, File: t.File, Relations: t.Relations[k:]}
	t.Relations = t.Relations[:k:k]
	for _, rel := range append(append([]*Relation(nil), t.Relations...), second.Relations...) {
		rel.ShareWith = ""
	}
	c.Types = append(c.Types, second)
	return c
}

func permTypes(m *Model, perm []int) *Model {
	c := m.clone()
	if len(perm) != len(c.Types) {
		return c
	}
	ts := make([]*Type, len(c.Types))
	for i, p := range perm {
		ts[i] = c.Types[p]
	}
	c.Types = ts
	return c
}

// wgCheck runs one schedule against the workload and returns the mismatches
// (all properties; the caller filters).
func (c *wgCtx) check(cfg simrt.Config) ([]mismatch, simrt.Stats, string) {
	mm, st, summary := c.check0(cfg)
	return settleAborted([]string{"C04", "C05", "C06", "C10", "C11"}, c.wl.Variant == "concurrent", mm, st), st, summary
}

func (c *wgCtx) check0(cfg simrt.Config) ([]mismatch, simrt.Stats, string) {
	var mm []mismatch
	add := func(prop, class, node, f string, a ...any) {
		mm = append(mm, mismatch{prop, class, node, fmt.Sprintf(f, a...)})
	}
	wl := c.wl
	switch wl.Variant {
	case "", "base":
		var out wgOutcome
		var st simrt.Stats
		if len(wl.Prelude) == 0 {
			out, st = execBuild(c.pm, cfg)
		} else {
			pre := make([]*openfgav1.AuthorizationModel, len(wl.Prelude))
			for i, m := range wl.Prelude {
				pre[i] = m.toProto()
			}
			simrt.Begin(cfg)
			simrt.CountFault("history.warm")
			simrt.Run([]func(){func() {
				builder := freshBuilder()
				for _, pm := range pre {
					o := doBuildWith(builder, pm)
					// the caller owns what was returned: it may write all over it
					scribbleWeighted(o.G)
				}
				if wl.ReuseObject {
					obj := pre[len(pre)-1]
					proto.Reset(obj)
					proto.Merge(obj, c.pm)
					simrt.CountFault("history.object_reused")
					out = doBuildWith(builder, obj)
				} else {
					out = doBuildWith(builder, c.pm)
				}
			}})
			st = simrt.End()
		}
		summary := out.verdict()
		if out.Err != nil {
			summary += " (" + out.ErrClass + ")"
		}
		if out.Mutated || c.canon.Mutated {
			// the canonical build of newWGCtx is the first call that sees the
			// model as generated (an in-place sort leaves nothing to change later)
			add("C10", "structure.model_modified", "", "Build modified its input model")
			add("C13", "input.modified", "", "Build modified its input model")
		}
		// C05 verdict against the reference
		wf := c.ref.wellFounded()
		switch {
		case out.Panic != "":
			add("C05", "verdict.panic", "", "Build panicked: %s", out.Panic)
		case out.Err == nil && !wf:
			add("C05", "verdict.accepts_unfounded", "", "accepted although not well-founded: %s", strings.Join(c.ref.reasons, "; "))
		case out.Err != nil && wf:
			add("C05", "verdict.rejects_wellfounded", "", "rejected a well-founded model: %v", out.Err)
		case out.Err != nil && out.ErrClass == "other":
			add("C05", "verdict.error_class", "", "error does not wrap ErrModelCycle/ErrTupleCycle/ErrInvalidModel: %v", out.Err)
		case out.Err != nil && out.G != nil:
			add("C05", "verdict.partial_graph", "", "error returned together with a graph")
		}
		// C06 against the canonical run
		if out.verdict() != c.canon.verdict() {
			add("C06", "determinism.verdict", "", "verdict %s under this schedule, %s under the canonical one", summary, c.canon.verdict())
		} else if out.accepted() {
			sn := snapshot(out.G)
			if sn.text != c.csnap.text {
				add("C06", "determinism.graph", "", "graph differs from canonical run: %s", firstDiff(c.csnap.text, sn.text))
			}
		}
		if out.accepted() && wf {
			// AssignWeights is a public method of the graph Build returned: a caller
			// that runs it again gets the same graph again (last, on a graph nothing
			// else looks at afterwards: compareWithRef below sees the result)
			before := snapshot(out.G).text
			func() {
				defer func() {
					if r := recover(); r != nil {
						if simrt.IsAbort(r) {
							panic(r)
						}
						add("C04", "weights.rerun", "", "AssignWeights panics when it is run again on the graph Build returned: %v", r)
					}
				}()
				if err := out.G.AssignWeights(); err != nil {
					for _, p := range []string{"C04", "C05", "C11", "C06"} {
						add(p, "rerun.error", "", "AssignWeights on the graph Build returned fails the second time: %v", err)
					}
				} else if after := snapshot(out.G).text; after != before {
					for _, p := range []string{"C04", "C11", "C06"} {
						add(p, "rerun.graph", "", "running AssignWeights again on the graph Build returned changes it: %s", firstDiff(before, after))
					}
				}
			}()
		}
		if out.accepted() && wf {
			mm = append(mm, compareWithRef(out.G, c.ref)...)
		} else if out.accepted() {
			// not well-founded but accepted: the statement of C04 speaks of every
			// model the builder accepts, so the clause "a weight for exactly the
			// terminal types that can reach it" still binds (T is a least fixpoint,
			// defined for every model); relation nodes are addressed by label
			for _, rn := range c.ref.order {
				if rn.kind != rkRel {
					continue
				}
				n, ok := out.G.GetNodes()[rn.id]
				if !ok {
					continue
				}
				got := map[string]bool{}
				for k := range n.GetWeights() {
					got[k] = true
				}
				if !sameSet(got, rn.T) {
					add("C04", "weights.node", rn.id, "relation %s of an accepted model carries weights for %v, the terminal types that can reach it are %v", rn.id, setKeys(got), setKeys(rn.T))
				}
			}
			// ... and the reference free clauses
			for l, n := range out.G.GetNodes() {
				if n.GetNodeType() == graph.SpecificTypeAndRelation && len(n.GetWeights()) == 0 {
					add("C04", "weights.empty", l, "relation %s has an empty weight map", l)
				}
				for k := range n.GetWeights() {
					if strings.HasPrefix(k, "R#") {
						add("C04", "weights.placeholder", l, "node %s exposes placeholder %s", l, k)
					}
				}
			}
		}
		return mm, st, summary
	case "perm-types":
		pm2 := permTypes(wl.Model, wl.TypePerm).toProto()
		simrt.Begin(cfg)
		simrt.CountFault("deliver.permute")
		var out wgOutcome
		simrt.Run([]func(){func() { out = doBuild(pm2) }})
		st := simrt.End()
		if out.verdict() != c.canon.verdict() {
			add("C06", "determinism.type_order.verdict", "", "verdict %s after permuting type definitions %v, %s before", out.verdict(), wl.TypePerm, c.canon.verdict())
		} else if out.accepted() {
			sn := snapshot(out.G)
			if sn.text != c.csnap.text {
				add("C06", "determinism.type_order.graph", "", "graph differs after permuting type definitions %v: %s", wl.TypePerm, firstDiff(c.csnap.text, sn.text))
			}
		}
		return mm, st, out.verdict()
	case "split-types":
		sm := splitType(wl.Model, wl.SplitType, wl.SplitAt)
		if sm == nil {
			return nil, simrt.Stats{}, "n/a"
		}
		pmA, pmB := sm.toProto(), permTypes(sm, wl.TypePerm).toProto()
		simrt.Begin(cfg)
		simrt.CountFault("deliver.permute")
		var outA, outB wgOutcome
		simrt.Run([]func(){func() { outA = doBuild(pmA); outB = doBuild(pmB) }})
		st := simrt.End()
		if outA.verdict() != outB.verdict() {
			add("C06", "determinism.type_order.verdict", "", "type %d written as two definitions of one name: verdict %s in one order of the definitions, %s after permuting them %v", wl.SplitType, outA.verdict(), outB.verdict(), wl.TypePerm)
		} else if outA.accepted() {
			if a, bb := snapshot(outA.G), snapshot(outB.G); a.text != bb.text {
				add("C06", "determinism.type_order.graph", "", "type %d written as two definitions of one name: graph differs after permuting the definitions %v: %s", wl.SplitType, wl.TypePerm, firstDiff(a.text, bb.text))
			}
		}
		return mm, st, outA.verdict()
	case "perm-operands":
		pm2 := wl.Alt.toProto()
		simrt.Begin(cfg)
		simrt.CountFault("deliver.permute")
		var out wgOutcome
		simrt.Run([]func(){func() { out = doBuild(pm2) }})
		st := simrt.End()
		if out.verdict() != c.canon.verdict() {
			add("C06", "determinism.operand_order.verdict", "", "verdict %s after permuting commutative operands, %s before", out.verdict(), c.canon.verdict())
		} else if out.accepted() {
			sn := snapshot(out.G)
			for l, w := range c.csnap.rel {
				if sn.rel[l] != w {
					add("C06", "determinism.operand_order.weights", l, "relation %s: %s before, %s after permuting commutative operands", l, w, sn.rel[l])
				}
			}
		}
		return mm, st, out.verdict()
	case "concurrent":
		models := append([]*Model{wl.Model}, wl.Others...)
		pms := make([]*openfgav1.AuthorizationModel, len(models))
		canon := make([]*wgOutcome, len(models))
		csn := make([]*wgSnap, len(models))
		for i, m := range models {
			pms[i] = m.toProto()
		}
		type res struct {
			task, idx int
			out       wgOutcome
		}
		var results []res
		shared := freshBuilder()
		fns := make([]func(), len(wl.Tasks))
		for t, list := range wl.Tasks {
			t, list := t, list
			fns[t] = func() {
				for _, idx := range list {
					simrt.Note("wg.build", "invoke", int64(idx))
					builder := shared
					if !wl.SharedBuilder {
						builder = freshBuilder()
					}
					o := doBuildWith(builder, pms[idx])
					simrt.Note("wg.build", "return", int64(idx))
					results = append(results, res{t, idx, o})
				}
			}
		}
		simrt.Begin(cfg)
		simrt.Run(fns)
		st := simrt.End()
		// canonical references are computed after the concurrent phase
		for i := range models {
			if i == 0 {
				canon[i], csn[i] = c.canon, c.csnap
				continue
			}
			o, _ := execBuild(models[i].toProto(), simrt.Config{})
			canon[i] = &o
			if o.accepted() {
				csn[i] = snapshot(o.G)
			}
		}
		if st.Deadlock {
			add("C13", "liveness.deadlock", "", "all tasks blocked")
		}
		if st.Overrun {
			add("C13", "liveness.overrun", "", "step bound exceeded")
		}
		for _, rs := range results {
			if rs.out.Mutated {
				add("C10", "structure.model_modified", "", "Build modified its input model")
			}
			if rs.idx == 0 {
				// the model under test: the reference clauses apply to every build of it
				wf := c.ref.wellFounded()
				switch {
				case rs.out.Panic != "":
					add("C05", "verdict.panic", "", "Build panicked under concurrency: %s", rs.out.Panic)
				case rs.out.Err == nil && !wf:
					add("C05", "verdict.accepts_unfounded", "", "task %d accepted a model that is not well-founded: %s", rs.task, strings.Join(c.ref.reasons, "; "))
				case rs.out.Err != nil && wf:
					add("C05", "verdict.rejects_wellfounded", "", "task %d rejected a well-founded model: %v", rs.task, rs.out.Err)
				}
				if rs.out.accepted() && wf {
					mm = append(mm, compareWithRef(rs.out.G, c.ref)...)
				}
			}
			if rs.out.verdict() != canon[rs.idx].verdict() {
				add("C06", "determinism.concurrent.verdict", "", "task %d model %d: verdict %s, sequential %s", rs.task, rs.idx, rs.out.verdict(), canon[rs.idx].verdict())
			} else if rs.out.accepted() {
				sn := snapshot(rs.out.G)
				if sn.text != csn[rs.idx].text {
					add("C06", "determinism.concurrent.graph", "", "task %d model %d: graph differs from sequential build: %s", rs.task, rs.idx, firstDiff(csn[rs.idx].text, sn.text))
				}
			}
		}
		return mm, st, fmt.Sprintf("%d builds", len(results))
	}
	return nil, simrt.Stats{}, "unknown variant"
}

// ---------------------------------------------------------------------------
// batch

func permuteOperands(r *rng, m *Model) (*Model, bool) {
	c := m.clone()
	changed := false
	var rec func(e *Expr)
	rec = func(e *Expr) {
		if e == nil {
			return
		}
		if (e.Kind == KUnion || e.Kind == KInter) && len(e.Children) >= 2 {
			p := r.perm(len(e.Children))
			ch := make([]*Expr, len(e.Children))
			for i, j := range p {
				ch[i] = e.Children[j]
				if i != j {
					changed = true
				}
			}
			e.Children = ch
		}
		for _, ch := range e.Children {
			rec(ch)
		}
	}
	for _, t := range c.Types {
		for _, rel := range t.Relations {
			rec(rel.Expr)
		}
	}
	return c, changed
}

func biasKnobs(prop string, r *rng, k genKnobs) genKnobs {
	k = biasKnobsProp(prop, r, k)
	if k.Large {
		// the library's cycle patching is super-linear in the number of
		// interlocking tuple cycles (minutes for a large, cycle-rich model -
		// C08's subject): large models are kept cycle-poor
		if k.PTupleBack > 10 {
			k.PTupleBack = 10
		}
		if k.PUserset > 15 {
			k.PUserset = 15
		}
		k.PRewriteBack = 0
	}
	return k
}

func biasKnobsProp(prop string, r *rng, k genKnobs) genKnobs {
	switch prop {
	case "C05":
		if r.chance(50) {
			k.PRewriteBack = []int{5, 15, 40}[r.intn(3)]
		} else {
			k.PRewriteBack = 0
			k.Invalid = false
		}
		if k.PTupleBack < 30 {
			k.PTupleBack = 30
		}
	case "C04":
		if r.chance(70) {
			k.PRewriteBack = 0
			k.Invalid = false
		}
		if k.PTupleBack < 30 {
			k.PTupleBack = 60
		}
		if k.PUserset == 0 {
			k.PUserset = 35
		}
	case "C11":
		if k.PWild == 0 {
			k.PWild = 40
		}
		if r.chance(50) {
			// many public types, long restriction lists, relations shared through
			// computed references: wildcard lists of different lengths meet
			k.PWild = []int{60, 80, 95}[r.intn(3)]
			k.NTerm = 4 + r.intn(4)
			k.MaxDirect = 3 + r.intn(3)
			k.PComputed = 40
			k.PUserset = []int{0, 15}[r.intn(2)]
		}
		if r.chance(70) {
			k.PRewriteBack = 0
			k.Invalid = false
		}
		if k.PTupleBack < 30 {
			k.PTupleBack = 60
		}
	case "C10":
		if r.chance(80) {
			k.PRewriteBack = 0
			k.Invalid = false
			k.PTupleBack = []int{0, 10, 30}[r.intn(3)]
		}
		if k.PCond == 0 {
			k.PCond = 50
		}
		if k.MaxDepth < 2 {
			k.MaxDepth = 2
		}
	case "C06":
		if r.chance(50) {
			k.PRewriteBack = 0
		}
	}
	return k
}

func mustJSON(v any) json.RawMessage {
	b, _ := json.Marshal(v)
	return b
}

// labelCollisionProbe: labels the library generates for its own nodes (operator
// nodes) live in the same namespace as the names of the model. On the pinned
// tree they are ULIDs, different in every build. If a second build of the same
// model gives an operator node the very same unique label again, the labels are
// a function of the model - and a model may then contain a type of exactly that
// name: the model is extended by such a type (assignable in a new relation, as
// plain type and as public type) and built again; it must be accepted and every
// relation of the original model must keep its weights and wildcard lists.
func labelCollisionProbe(c *wgCtx, b *BatchResult) (msg string) {
	defer func() {
		if r := recover(); r != nil {
			msg = fmt.Sprintf("panic while building a model that contains a type named like a generated label: %v", r)
		}
	}()
	second, err := freshBuilder().Build(proto.Clone(c.pm).(*openfgav1.AuthorizationModel))
	if err != nil {
		return ""
	}
	var stable []string
	for l, n := range second.GetNodes() {
		if n.GetNodeType() != graph.OperatorNode {
			continue
		}
		if o, ok := c.canon.G.GetNodes()[l]; ok && o.GetNodeType() == graph.OperatorNode {
			stable = append(stable, l)
		}
	}
	if len(stable) == 0 {
		return ""
	}
	sort.Strings(stable)
	b.Probes["models_with_reproducible_generated_labels"]++
	if len(stable) > 4 {
		stable = stable[:4]
	}
	for _, l := range stable {
		m2 := c.wl.Model.clone()
		if m2.typeByName(l) != nil {
			continue
		}
		m2.Types = append([]*Type{{Name: l}}, m2.Types...)
		host := &Type{Name: "zz_probe_host", Relations: []*Relation{{Name: "probe", Expr: &Expr{Kind: KThis}, Direct: []Ref{{Type: l}, {Type: l, Wild: true}}}}}
		for m2.typeByName(host.Name) != nil {
			host.Name += "x"
		}
		m2.Types = append(m2.Types, host)
		g2, err := freshBuilder().Build(m2.toProto())
		if err != nil {
			return fmt.Sprintf("operator nodes get the same unique label %q in every build of this model; with a type of that name added (assignable in a new relation of a new type) the model is rejected: %v", l, err)
		}
		for id, n := range c.canon.G.GetNodes() {
			if n.GetNodeType() != graph.SpecificTypeAndRelation {
				continue
			}
			n2, ok := g2.GetNodes()[id]
			if !ok {
				return fmt.Sprintf("with a type named like the generated label %q added, relation %s is missing from the graph", l, id)
			}
			w1, w2 := fmtWeights(n.GetWeights()), fmtWeights(n2.GetWeights())
			a1 := append([]string(nil), n.GetWildcards()...)
			a2 := append([]string(nil), n2.GetWildcards()...)
			sort.Strings(a1)
			sort.Strings(a2)
			if w1 != w2 || strings.Join(a1, ",") != strings.Join(a2, ",") {
				return fmt.Sprintf("operator nodes get the same unique label %q in every build; with a type of that name added, relation %s of the original model has weights %s wildcards %v instead of %s %v", l, id, w2, a2, w1, a1)
			}
		}
		if pn, ok := g2.GetNodes()[host.Name+"#probe"]; !ok || fmtWeights(pn.GetWeights()) != fmtWeights(map[string]int{l: 1}) {
			got := "missing"
			if ok {
				got = fmtWeights(pn.GetWeights())
			}
			return fmt.Sprintf("with a type named like the generated label %q added, the relation assignable to it has weights %s", l, got)
		}
	}
	return ""
}

// massRepetition builds the model under test n times on fresh builders, no
// simulation attached, and reports the first build whose verdict differs.
func massRepetition(c *wgCtx, n int) (msg string) {
	defer func() {
		if r := recover(); r != nil {
			msg = fmt.Sprintf("build panicked during a long run of identical builds: %v", r)
		}
	}()
	// a tiny model when the one under test is not (70 000 builds of it must
	// stay a matter of a second or two)
	pm, want := c.pm, c.canon.verdict()
	if c.canonSteps > 400 {
		pm = (&Model{Schema: "1.1", Types: []*Type{{Name: "user"}, {Name: "doc", Relations: []*Relation{
			{Name: "viewer", Expr: &Expr{Kind: KThis}, Direct: []Ref{{Type: "user"}}},
			{Name: "editor", Expr: &Expr{Kind: KUnion, Children: []*Expr{{Kind: KThis}, {Kind: KComputed, Rel: "viewer"}}}, Direct: []Ref{{Type: "user"}}}}}}}).toProto()
		want = "accepted"
	}
	for i := 0; i < n; i++ {
		_, err := freshBuilder().Build(pm)
		got := "accepted"
		if err != nil {
			got = "rejected"
		}
		if i%1000 == 999 {
			simrt.RunPendingFinalizers()
		}
		if got != want {
			return fmt.Sprintf("build %d of %d identical builds in one process is %s (%v), the first was %s", i+1, n, got, err, want)
		}
	}
	return ""
}

// renderParts renders nodes and edges a caller kept, without the graph.
func renderParts(nodes []*graph.WeightedAuthorizationModelNode, edges []*graph.WeightedAuthorizationModelEdge) string {
	var sb strings.Builder
	for _, n := range nodes {
		sb.WriteString(n.GetLabel() + "|" + strconv.Itoa(int(n.GetNodeType())) + "|" + fmtWeights(n.GetWeights()) + "|" + strings.Join(n.GetWildcards(), ",") + "\n")
	}
	for _, e := range edges {
		f, t := "", ""
		if e.GetFrom() != nil {
			f = e.GetFrom().GetLabel()
		}
		if e.GetTo() != nil {
			t = e.GetTo().GetLabel()
		}
		sb.WriteString(f + ">" + t + "|" + strconv.Itoa(int(e.GetEdgeType())) + "|" + e.GetTuplesetRelation() + "|" + strings.Join(e.GetConditions(), ",") + "|" + fmtWeights(e.GetWeights()) + "|" + strings.Join(e.GetWildcards(), ",") + "\n")
	}
	return sb.String()
}

var gcFinalizersRun int

func retainedPartsAfterGC(c *wgCtx) (msg string) {
	defer func() {
		if r := recover(); r != nil {
			msg = fmt.Sprintf("panic while reading retained nodes and edges: %v", r)
		}
	}()
	var nodes []*graph.WeightedAuthorizationModelNode
	var edges []*graph.WeightedAuthorizationModelEdge
	// older garbage first, so that the graph built next is the most recently
	// finalised one when its turn comes
	runtime.GC()
	for i := 0; i < 20; i++ {
		runtime.Gosched()
	}
	gcFinalizersRun += simrt.RunPendingFinalizers()
	func() {
		g, err := graph.NewWeightedAuthorizationModelGraphBuilder().Build(proto.Clone(c.pm).(*openfgav1.AuthorizationModel))
		if err != nil {
			return
		}
		labels := make([]string, 0, len(g.GetNodes()))
		for l := range g.GetNodes() {
			labels = append(labels, l)
		}
		sort.Strings(labels)
		for _, l := range labels {
			nodes = append(nodes, g.GetNodes()[l])
			edges = append(edges, g.GetEdges()[l]...)
		}
	}() // the graph itself is garbage from here on
	if len(nodes) == 0 {
		return ""
	}
	base := renderParts(nodes, edges)
	for round := 0; round < 3; round++ {
		runtime.GC()
		for i := 0; i < 20; i++ {
			runtime.Gosched() // the finalizer goroutine
		}
		time.Sleep(200 * time.Microsecond)
		gcFinalizersRun += simrt.RunPendingFinalizers() // (queued by the runtime's finalizer goroutine, run here)
		for i := 0; i < 3; i++ {
			_, _ = graph.NewWeightedAuthorizationModelGraphBuilder().Build(proto.Clone(c.pm).(*openfgav1.AuthorizationModel))
		}
		if now := renderParts(nodes, edges); now != base {
			return "nodes and edges of a graph that the caller kept (without keeping the graph) changed after a garbage collection and later builds: " + firstDiff(base, now)
		}
	}
	return ""
}

type wgParams struct {
	nRandom   int
	tinyPerms bool
}

func wgRunOne(b *BatchResult, prop string, seed, run uint64, p wgParams) {
	r := newRNG(seed, hashStr("wgsim"), hashStr(prop), run)
	zeroValueBuilders = run%7 == 3
	if zeroValueBuilders {
		b.Probes["workloads_with_zero_value_builders"]++
	}
	k := biasKnobs(prop, r, drawKnobs(r))
	m := genModel(r, k)
	if r.chance(8) {
		if fm := fixtureModel(r, false); fm != nil {
			m = fm
			b.Mix["fixture_seeded_models"]++
		}
	} else if (prop == "C11" && r.chance(30)) || (prop == "C06" && r.chance(10)) || (prop == "C04" && r.chance(3)) {
		m = genWildcardLattice(r)
		b.Mix["wildcard_lattice_models"]++
	} else if (prop == "C11" && r.chance(4)) || r.chance(1) {
		m = genOddNames(r)
		b.Mix["odd_name_models"]++
	} else if r.chance(2) {
		m = genSeparatorCollision(r)
		b.Mix["separator_collision_models"]++
	} else if r.chance(2) {
		m = genOperatorLattice(r)
		b.Mix["operator_lattice_models"]++
	} else if r.chance(1) {
		m = genEmptyRelationName(r)
		b.Mix["empty_relation_name_models"]++
	} else if r.chance(2) {
		switch r.intn(5) {
		case 4:
			m = genManyRestrictions(r)
			b.Mix["many_restrictions_models"]++
		case 0:
			m = genDeepNesting(r)
			b.Mix["deep_nesting_models"]++
		case 1:
			m = genLongChain(r)
			b.Mix["long_chain_models"]++
		case 2:
			m = genManyTypes(r)
			b.Mix["many_types_models"]++
		case 3:
			m = genOddNames(r)
			b.Mix["odd_name_models"]++
		}
	}
	if r.chance(4) && injectAliasing(r, m) {
		b.Mix["models_with_shared_messages"]++
	} else if r.chance(3) && injectInterning(r, m) {
		b.Mix["models_with_interned_rewrites"]++
	}
	if (prop == "C05" || prop == "C04" || prop == "C10") && r.chance(2) && injectUnsetOperand(r, m) {
		b.Mix["models_with_an_unset_operand"]++
	} else if (prop == "C05" || prop == "C04") && r.chance(2) && injectEmptyDirect(r, m) {
		b.Mix["models_with_empty_direct_assignment_under_operator"]++
	}
	if prop == "C05" || prop == "C04" {
		// the first three workloads of every batch are the reproducers of the
		// listed known findings, so that every run prints their KNOWN-FINDING line
		// (and would report them as violations the day their matcher stops fitting)
		this := func() *Expr { return &Expr{Kind: KThis} }
		switch run {
		case 0: // D12: an empty direct assignment as operand of an intersection
			m = &Model{Schema: "1.1", Types: []*Type{{Name: "u0"}, {Name: "doc", Relations: []*Relation{
				{Name: "b", Expr: this(), Direct: []Ref{{Type: "u0"}}},
				{Name: "a", Expr: &Expr{Kind: KInter, Children: []*Expr{this(), {Kind: KComputed, Rel: "b"}}}}}}}}
		case 1: // D12b: every operand of an exclusion is an empty direct assignment
			m = &Model{Schema: "1.1", Types: []*Type{{Name: "u0"}, {Name: "doc", Relations: []*Relation{
				{Name: "ab", Expr: this(), Direct: []Ref{{Type: "u0"}}},
				{Name: "a", Expr: &Expr{Kind: KUnion, Children: []*Expr{{Kind: KExcl, Children: []*Expr{this(), this()}}, {Kind: KComputed, Rel: "ab"}}}}}}}}
		case 2: // D12b, union form
			m = &Model{Schema: "1.1", Types: []*Type{{Name: "u1"}, {Name: "team", Relations: []*Relation{
				{Name: "a", Expr: this(), Direct: []Ref{{Type: "u1"}}},
				{Name: "b", Expr: &Expr{Kind: KUnion, Children: []*Expr{{Kind: KUnion, Children: []*Expr{this(), this()}}, {Kind: KComputed, Rel: "a"}}}}}}}}
		}
	}
	wl := &wlWG{Variant: "base", Model: m}
	c := newWGCtx(wl)
	// a per-workload budget: the library's cycle patching is super-linear in
	// the number of interlocking tuple cycles, and a handful of generated
	// models need 0.1-1 s PER BUILD. Those get a sample of the schedule family
	// and none of the multi-build variants, so that no workload costs more than
	// a few seconds (what is dropped is counted). The cost measure is the number
	// of yield points the canonical build passes - deterministic, unlike time.
	slow := c.canonSteps > 150_000
	if slow {
		b.Probes["slow_models_with_reduced_family"]++
	}
	b.Workloads++
	b.keySet[hashStr(modelKey(m))] = true
	if !slow && c.canon.accepted() {
		if msg := labelCollisionProbe(c, b); msg != "" {
			for _, p := range []string{"C10", "C04", "C05", "C11", "C06"} {
				b.violation(Violation{Property: p, Engine: "wgsim", Class: "structure.generated_label_collides", Detail: msg, Seed: seed, Run: run,
					Workload: mustJSON(wl), Sched: simrt.Config{}, SchedName: "canonical, model extended by a type named like a generated label", Describe: m.describe()})
			}
		}
	}
	if run%2000 == 11 && !slow && c.canon.Panic == "" {
		// mass repetition: the same small model a hundred thousand times in one
		// process (counters that wrap, marks that are truncated, tables that fill
		// up): every build must give the verdict of the first
		b.Probes["mass_repetition_histories"]++
		if msg := massRepetition(c, 70_000); msg != "" {
			for _, p := range []string{"C06", "C05", "C04"} {
				b.violation(Violation{Property: p, Engine: "wgsim", Class: "determinism.mass_repetition", Detail: msg, Seed: seed, Run: run,
					Workload: mustJSON(wl), Sched: simrt.Config{}, SchedName: "canonical x 70000", Describe: m.describe()})
			}
		}
	}
	if r.chance(3) && !slow && c.canon.accepted() {
		// a caller that keeps nodes and edges of a graph but not the graph: after
		// a garbage collection (finalizers run) and further builds they still say
		// what they said
		b.Probes["retained_parts_after_gc"]++
		gcFinalizersRun = 0
		msg := retainedPartsAfterGC(c)
		b.Probes["finalizers_run_in_gc_steps"] += int64(gcFinalizersRun)
		if msg != "" {
			for _, p := range []string{"C10", "C04", "C11", "C13"} {
				b.violation(Violation{Property: p, Engine: "wgsim", Class: "structure.retained_parts_changed", Detail: msg, Seed: seed, Run: run,
					Workload: mustJSON(wl), Sched: simrt.Config{}, SchedName: "canonical + gc", Describe: m.describe()})
			}
		}
	}
	nontriv := c.ref.nontrivial()
	if nontriv {
		b.Mix["nontrivial_models"]++
	}
	if c.ref.wellFounded() {
		b.Mix["ref_wellfounded"]++
	} else {
		b.Mix["ref_not_wellfounded"]++
	}
	// reach probes: rare shapes the properties name explicitly
	if c.ref.wellFounded() {
		inf, wcInf, multi := false, false, false
		for _, n := range c.ref.order {
			for _, w := range n.W {
				if w == refInfinite {
					inf = true
					if len(n.Wc) > 0 {
						wcInf = true
					}
				}
			}
			if n.kind == rkOp && (n.label == KInter || n.label == KExcl) {
				for _, g := range n.operands {
					if len(g) >= 2 {
						multi = true
					}
				}
			}
		}
		if inf {
			b.Probes["wellfounded_models_with_infinite_weight"]++
		}
		if wcInf {
			b.Probes["wellfounded_models_with_wildcard_on_or_behind_tuple_cycle"]++
		}
		if multi {
			b.Probes["wellfounded_models_with_multi_edge_operand_under_and_or_butnot"]++
		}
		if n := c.ref.cyclicSCCs(); n >= 2 {
			b.Probes["wellfounded_models_with_two_or_more_tuple_cycles_regions"]++
		} else if c.ref.interlocking() {
			b.Probes["wellfounded_models_with_interlocking_cycles"]++
		}
	}
	b.Mix["canon_"+c.canon.verdict()]++
	if c.canon.ErrClass != "" {
		b.Mix["canon_err_"+c.canon.ErrClass]++
	}

	report := func(wl *wlWG, s namedSched, mm []mismatch, st simrt.Stats) {
		for _, x := range mm {
			if x.prop != prop {
				if x.class == "structure.node_missing" || strings.HasPrefix(x.class, "structure.") {
					b.Probes["other_prop_structure_mismatch"]++
				}
				continue
			}
			var wj []byte
			desc := ""
			if b.keeping() {
				wj, _ = json.Marshal(wl)
				desc = wl.Model.describe()
			}
			cfg := s.cfg
			cfg.Tape = st.TapeUsed
			cfg.Generative = false
			v := Violation{Property: prop, Engine: "wgsim", Class: x.class, Detail: x.detail, Seed: seed, Run: run,
				Workload: wj, Sched: cfg, SchedName: s.name, Fingerprint: fpString(st.Fingerprint), Describe: desc}
			v.Known = wgKnown(prop, x, wl, c.ref)
			b.violation(v)
		}
	}

	// canonical schedule first
	canonS := namedSched{"canonical", simrt.Config{}}
	mm, st, summary := c.check(canonS.cfg)
	b.addStats(st, false)
	report(wl, canonS, mm, st)
	if len(b.Samples) < 3 && (run%7 == 0) {
		b.Samples = append(b.Samples, Sample{Workload: m.describe(), Sched: "canonical + family", Outcome: summary + "; reference well-founded=" + fmt.Sprint(c.ref.wellFounded())})
	}

	fam := wgFamily(r, len(c.ref.order), p.nRandom, seed^run<<20, p.tinyPerms)
	if slow {
		keep := int(10_000_000 / c.canonSteps)
		if keep < 3 {
			keep = 3
		}
		if keep < len(fam) {
			pi := r.perm(len(fam))[:keep]
			sort.Ints(pi)
			sub := make([]namedSched, 0, keep)
			for _, i := range pi {
				sub = append(sub, fam[i])
			}
			fam = sub
		}
	}
	for _, s := range fam {
		mm, st, _ := c.check(s.cfg)
		b.addStats(st, nontriv)
		report(wl, s, mm, st)
		// identical tape re-execution sample (uncontrolled-source detector)
		if r.chance(2) {
			cfg := s.cfg
			cfg.Tape = st.TapeUsed
			cfg.Generative = false
			mm2, st2, _ := c.check(cfg)
			b.RerunN++
			if st2.Fingerprint != st.Fingerprint || len(mm2) != len(mm) {
				b.RerunDiv++
			}
		}
	}

	// call history: 1-2 other models built on the same builder value first;
	// every clause of the property is evaluated on the last build as usual
	var cands []*Model
	candsDone := false
	if run%3 == 0 && !slow {
		wlh := &wlWG{Variant: "base", Model: m}
		nh := 1 + r.intn(2)
		if r.chance(4) {
			// a long history (counters, caches and leaks that need dozens of
			// earlier - often failing - builds on the same builder)
			nh = 35 + r.intn(30)
			b.Probes["long_builder_histories"]++
		}
		for i := 0; i < nh; i++ {
			var pm *Model
			if r.chance(50) && len(c.ref.order) <= 60 {
				// a near-duplicate: same names, one relation dropped or redirected
				// (candidates computed once per workload; not for big models,
				// where every candidate is a full clone)
				if !candsDone {
					cands, candsDone = modelCandidates(m), true
				}
				if len(cands) > 0 {
					pm = cands[r.intn(len(cands))]
				}
			}
			if pm == nil {
				kk := biasKnobs(prop, r, drawKnobs(r))
				if nh > 2 {
					kk.Invalid = true
					kk.Large = false
					kk.NObj, kk.MaxRel = 1+r.intn(2), 1+r.intn(3)
				}
				pm = genModel(r, kk)
			}
			wlh.Prelude = append(wlh.Prelude, pm)
		}
		switch r.intn(10) {
		case 0, 1:
			// the model under test itself was built (or rejected) just before
			wlh.Prelude = append(wlh.Prelude, m)
			b.Probes["histories_ending_with_the_same_model"]++
		case 4, 5, 6:
			// ... or a version of it that is rejected in the middle of the
			// weight assignment, with a tuple cycle still open
			if bad := addMidCycleFailure(r, m); bad != nil {
				wlh.Prelude = append(wlh.Prelude, bad)
				b.Probes["histories_ending_with_a_mid_cycle_failure"]++
			}
		case 2, 3:
			// ... or a version of it that is rejected half way through a tuple
			// to userset: one more parent type, which lacks the relation
			if bad := addRelationlessParent(r, m); bad != nil {
				wlh.Prelude = append(wlh.Prelude, bad)
				b.Probes["histories_ending_with_a_rejected_variant"]++
			}
		}
		if c.canon.ErrClass == "model_cycle" && r.chance(4) {
			// a giant valid model with the same labels was built just before
			wlh.Prelude = append(wlh.Prelude, giantVariant(m))
			b.Probes["histories_ending_with_a_giant_model"]++
		}
		wlh.ReuseObject = r.chance(30)
		ch := &wgCtx{wl: wlh, ref: c.ref, pm: c.pm, canon: c.canon, csnap: c.csnap}
		s := canonS
		if len(fam) > 0 && r.chance(50) {
			s = fam[r.intn(len(fam))]
		}
		mm, st, _ := ch.check(s.cfg)
		b.addStats(st, nontriv)
		report(wlh, s, mm, st)
		b.Probes["builds_after_a_history_on_one_builder"]++
	}

	if prop == "C06" {
		// (b) type definition order
		for i := 0; i < 2; i++ {
			wl2 := &wlWG{Variant: "perm-types", Model: m, TypePerm: r.perm(len(m.Types))}
			c2 := &wgCtx{wl: wl2, ref: c.ref, pm: c.pm, canon: c.canon, csnap: c.csnap}
			s := namedSched{"canonical", simrt.Config{}}
			if i == 1 && len(fam) > 0 {
				s = fam[r.intn(len(fam))]
			}
			mm, st, _ := c2.check(s.cfg)
			b.addStats(st, nontriv)
			report(wl2, s, mm, st)
		}
		// (b') one type written as two definitions of the same name
		if r.chance(25) {
			var multi []int
			for i, t := range m.Types {
				if len(t.Relations) >= 2 {
					multi = append(multi, i)
				}
			}
			if len(multi) > 0 {
				ti := multi[r.intn(len(multi))]
				wl5 := &wlWG{Variant: "split-types", Model: m, SplitType: ti, SplitAt: 1 + r.intn(len(m.Types[ti].Relations)-1), TypePerm: r.perm(len(m.Types) + 1)}
				c5 := &wgCtx{wl: wl5, ref: c.ref, pm: c.pm, canon: c.canon, csnap: c.csnap}
				s := namedSched{"canonical", simrt.Config{}}
				if len(fam) > 0 && r.chance(50) {
					s = fam[r.intn(len(fam))]
				}
				mm, st, _ := c5.check(s.cfg)
				b.addStats(st, nontriv)
				report(wl5, s, mm, st)
				b.Probes["split_type_definitions"]++
			}
		}
		// (c) commutative operand order
		if alt, changed := permuteOperands(r, m); changed {
			wl3 := &wlWG{Variant: "perm-operands", Model: m, Alt: alt}
			c3 := &wgCtx{wl: wl3, ref: c.ref, pm: c.pm, canon: c.canon, csnap: c.csnap}
			s := namedSched{"canonical", simrt.Config{}}
			mm, st, _ := c3.check(s.cfg)
			b.addStats(st, nontriv)
			report(wl3, s, mm, st)
			b.Probes["operand_permutations"]++
		}
	}
	{
		// (d) concurrent builders (every property: each evaluates its own clauses)
		// (small models only: a 3-task build of a 150-node graph under dense
		// preemption costs minutes and explores nothing a small one does not)
		if !slow && len(c.ref.order) <= 40 && ((prop == "C06" && run%4 == 0) || (prop != "C06" && run%8 == 0)) {
			k2 := biasKnobs(prop, r, drawKnobs(r))
			other := genModel(r, k2)
			wl4 := &wlWG{Variant: "concurrent", Model: m, Others: []*Model{other}, SharedBuilder: r.chance(50)}
			nt := 1 + r.intn(3) // 1 task = a sequential history of builds on one builder
			for t := 0; t < nt; t++ {
				var list []int
				n := 1 + r.intn(2)
				if nt == 1 {
					n = 2 + r.intn(3)
					wl4.SharedBuilder = true
				}
				for j := 0; j < n; j++ {
					list = append(list, r.intn(2))
				}
				wl4.Tasks = append(wl4.Tasks, list)
			}
			c4 := &wgCtx{wl: wl4, ref: c.ref, pm: c.pm, canon: c.canon, csnap: c.csnap}
			cfg := simrt.Config{Seed: r.next(), Generative: true, PreemptDen: []uint32{2, 4, 16, 64}[r.intn(4)], MapDen: 8, MapKinds: 0b11110, ClockDen: 4, ClockKinds: 0b11110, MaxSteps: 600_000}
			s := namedSched{"concurrent-random", cfg}
			mm, st, _ := c4.check(cfg)
			b.addStats(st, true)
			report(wl4, s, mm, st)
			b.Probes["concurrent_runs"]++
			if st.Switches > 0 {
				b.Probes["concurrent_runs_with_switches"]++
			}
		}
	}
}

// wgKnown classifies a mismatch as a listed known finding (or "").
//
// D12: a direct assignment without type restrictions directly under an
// intersection, or as the base of an exclusion, is not represented in the
// graph at all (it expands to zero edges), so the operator is evaluated over
// its remaining operands: '[] and b' is accepted with b's types although no
// type is common to all operands, and '[] but not b' takes b for the base.
// The matcher is deliberately structural and per model: it applies only when
// the model under test contains that shape (which the generator injects into
// at most 2 %% of the C04/C05 workloads and nowhere else), and only to the
// violation classes the defect can produce.
func wgKnown(prop string, x mismatch, wl *wlWG, ref *rgraph) string {
	const id = "D12-empty-direct-assignment-operand"
	const id2 = "D12b-operator-without-operand-edges"
	if wl.Model == nil {
		return ""
	}
	// the same root cause at its extreme: EVERY operand of the operator is a
	// direct assignment without type restrictions, the operator node has no
	// edge at all and the builder rejects the model ("does not have any
	// terminal type") although the relation reaches user types otherwise
	if prop == "C05" && x.class == "verdict.rejects_wellfounded" && knownActive(id2, prop) && edgelessOperator(wl.Model) {
		return id2
	}
	if !knownActive(id, prop) || !emptyDirectUnderOperator(wl.Model) {
		return ""
	}
	switch prop {
	case "C05":
		if x.class == "verdict.accepts_unfounded" {
			return id
		}
	case "C04":
		if x.class == "weights.node" || x.class == "weights.edge" {
			return id
		}
	}
	return ""
}
