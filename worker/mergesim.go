package main

// mergesim: the module merger (C07, C12).

import (
	"encoding/json"
	"errors"
	"fmt"
	"sort"
	"strconv"
	"strings"

	openfgav1 "github.com/openfga/api/proto/openfga/v1"
	parser "github.com/openfga/language/pkg/go/gen"
	"github.com/openfga/language/pkg/go/transformer"
	"github.com/openfga/language/pkg/go/utils"
	"google.golang.org/protobuf/proto"

	"verifsim/simrt"
)

type mergeErr struct {
	Msg  string
	File string
	Line int
	Col  int
	Kind string // single | other
}

func (e mergeErr) String() string {
	// no fmt: this runs inside simulated tasks (see snapshot in wgsim.go)
	return "[" + e.Kind + " file=" + strconv.Quote(e.File) + " line=" + strconv.Itoa(e.Line) + " col=" + strconv.Itoa(e.Col) + "] " + e.Msg
}

type mergeOutcome struct {
	Model   *openfgav1.AuthorizationModel
	Err     error
	Errs    []mergeErr
	Panic   string
	Mutated bool
}

func (o *mergeOutcome) verdict() string {
	switch {
	case o.Panic != "":
		return "panic"
	case o.Err != nil:
		return "error"
	}
	return "success"
}

func (o *mergeOutcome) errText() string {
	parts := make([]string, len(o.Errs))
	for i, e := range o.Errs {
		parts[i] = e.String()
	}
	return strings.Join(parts, "\n")
}

func deliver(wl *wlMerge, order []int) []transformer.ModuleFile {
	files := make([]transformer.ModuleFile, 0, len(order))
	for _, i := range order {
		f := wl.Files[i]
		files = append(files, transformer.ModuleFile{Name: f.deliveredName(), Contents: f.contents()})
	}
	return files
}

func doMerge(files []transformer.ModuleFile, schema string) (out mergeOutcome) {
	before := append([]transformer.ModuleFile(nil), files...)
	defer func() {
		if r := recover(); r != nil {
			if simrt.IsAbort(r) {
				panic(r)
			}
			out = mergeOutcome{Panic: fmt.Sprint(r)}
		}
		for i := range before {
			// field by field: the struct may grow fields that are not comparable
			if i >= len(files) || before[i].Name != files[i].Name || before[i].Contents != files[i].Contents {
				out.Mutated = true
			}
		}
	}()
	m, err := transformer.TransformModuleFilesToModel(files, schema)
	out.Model, out.Err = m, err
	if err != nil {
		var mv *transformer.ModuleValidationMultipleError
		if errors.As(err, &mv) {
			for _, e := range mv.Errors {
				var se *transformer.ModuleTransformationSingleError
				if errors.As(e, &se) {
					out.Errs = append(out.Errs, mergeErr{Msg: se.Msg, File: se.File, Line: se.Line.Start, Col: se.Column.Start, Kind: "single"})
				} else {
					out.Errs = append(out.Errs, mergeErr{Msg: e.Error(), Line: -1, Col: -1, Kind: "other"})
				}
			}
		} else {
			out.Errs = append(out.Errs, mergeErr{Msg: err.Error(), Line: -1, Col: -1, Kind: "other"})
		}
	}
	return out
}

// ---------------------------------------------------------------------------
// reference merge, computed from the plan (DESIGN.md §7.6)

type expRel struct {
	expr   string
	direct string
	module string // "" for relations declared with the type
	file   string
}

type expType struct {
	module, file string
	rels         map[string]*expRel
}

type expMerge struct {
	types map[string]*expType
	conds map[string]*Cond
	cmod  map[string][2]string
}

func refMerge(wl *wlMerge) *expMerge {
	e := &expMerge{types: map[string]*expType{}, conds: map[string]*Cond{}, cmod: map[string][2]string{}}
	for _, f := range wl.Files {
		if f.Kind != "module" {
			continue
		}
		for _, b := range f.Blocks {
			if b.Extend {
				continue
			}
			et := &expType{module: f.Module, file: f.deliveredName(), rels: map[string]*expRel{}}
			for _, r := range b.Type.Relations {
				et.rels[r.Name] = &expRel{expr: exprKey(r.Expr), direct: fmt.Sprint(r.Direct)}
			}
			e.types[b.Type.Name] = et
		}
		for _, c := range f.Conds {
			e.conds[c.Name] = c
			e.cmod[c.Name] = [2]string{f.Module, f.deliveredName()}
		}
	}
	for _, f := range wl.Files {
		if f.Kind != "module" {
			continue
		}
		for _, b := range f.Blocks {
			if !b.Extend {
				continue
			}
			et := e.types[b.Type.Name]
			if et == nil {
				continue
			}
			for _, r := range b.Type.Relations {
				et.rels[r.Name] = &expRel{expr: exprKey(r.Expr), direct: fmt.Sprint(r.Direct), module: f.Module, file: f.deliveredName()}
			}
		}
	}
	return e
}

// compareMerged checks a returned model against the reference union.
func compareMerged(m *openfgav1.AuthorizationModel, wl *wlMerge, e *expMerge) []mismatch {
	var mm []mismatch
	add := func(class, f string, a ...any) {
		mm = append(mm, mismatch{"C07", class, "", fmt.Sprintf(f, a...)})
	}
	if m.GetSchemaVersion() != wl.Schema {
		add("merge.schema", "schema version %q, requested %q", m.GetSchemaVersion(), wl.Schema)
	}
	seen := map[string]bool{}
	for _, td := range m.GetTypeDefinitions() {
		name := td.GetType()
		if seen[name] {
			add("merge.type_twice", "type %s appears twice in the result", name)
			continue
		}
		seen[name] = true
		et := e.types[name]
		if et == nil {
			add("merge.type_invented", "type %s was not declared in any file", name)
			continue
		}
		if td.GetMetadata().GetModule() != et.module || td.GetMetadata().GetSourceInfo().GetFile() != et.file {
			add("merge.type_attribution", "type %s attributed to module %q file %q, declared in module %q file %q", name, td.GetMetadata().GetModule(), td.GetMetadata().GetSourceInfo().GetFile(), et.module, et.file)
		}
		for rn, us := range td.GetRelations() {
			er := et.rels[rn]
			if er == nil {
				add("merge.relation_invented", "relation %s#%s was not declared in any file", name, rn)
				continue
			}
			ex, err := exprFromProto(us)
			if err != nil || exprKey(ex) != er.expr {
				add("merge.rewrite_changed", "rewrite of %s#%s is %s, declared %s", name, rn, exprKey(ex), er.expr)
			}
			md := td.GetMetadata().GetRelations()[rn]
			var refs []Ref
			for _, d := range md.GetDirectlyRelatedUserTypes() {
				refs = append(refs, Ref{Type: d.GetType(), Rel: d.GetRelation(), Wild: d.GetWildcard() != nil, Cond: d.GetCondition()})
			}
			if fmt.Sprint(refs) != er.direct {
				add("merge.restrictions_changed", "type restrictions of %s#%s are %v, declared %s", name, rn, refs, er.direct)
			}
			wantModule := et.module
			if er.module != "" {
				wantModule = er.module
				if md.GetModule() != er.module || md.GetSourceInfo().GetFile() != er.file {
					add("merge.relation_attribution", "extension relation %s#%s attributed to module %q file %q, contributed by module %q file %q", name, rn, md.GetModule(), md.GetSourceInfo().GetFile(), er.module, er.file)
				}
			}
			got, gerr := utils.GetModuleForObjectTypeRelation(td, rn)
			if gerr != nil || got != wantModule {
				add("merge.module_lookup", "GetModuleForObjectTypeRelation(%s,%s)=%q,%v, expected %q", name, rn, got, gerr, wantModule)
			}
		}
		for rn := range et.rels {
			if _, ok := td.GetRelations()[rn]; !ok {
				add("merge.relation_lost", "relation %s#%s declared but missing from the result", name, rn)
			}
		}
		for rn := range td.GetMetadata().GetRelations() {
			if _, ok := td.GetRelations()[rn]; !ok {
				add("merge.metadata_orphan", "metadata for %s#%s without a relation", name, rn)
			}
		}
		if _, gerr := utils.GetModuleForObjectTypeRelation(td, "no-such-relation"); gerr == nil {
			add("merge.module_lookup", "GetModuleForObjectTypeRelation(%s,no-such-relation) did not fail", name)
		}
	}
	for name := range e.types {
		if !seen[name] {
			add("merge.type_lost", "type %s declared but missing from the result", name)
		}
	}
	for cn, c := range m.GetConditions() {
		ec := e.conds[cn]
		if ec == nil {
			add("merge.condition_invented", "condition %s was not declared in any file", cn)
			continue
		}
		if c.GetName() != cn || strings.TrimSpace(c.GetExpression()) != strings.TrimSpace(ec.Expr) {
			add("merge.condition_changed", "condition %s: name %q expression %q, declared %q", cn, c.GetName(), c.GetExpression(), ec.Expr)
		}
		if len(c.GetParameters()) != len(ec.Params) {
			add("merge.condition_changed", "condition %s has %d parameters, declared %d", cn, len(c.GetParameters()), len(ec.Params))
		}
		for _, p := range ec.Params {
			pt := c.GetParameters()[p.Name]
			if pt == nil || pt.GetTypeName() != paramTypeNames[p.Type] {
				add("merge.condition_changed", "condition %s parameter %s differs", cn, p.Name)
			}
		}
		at := e.cmod[cn]
		if c.GetMetadata().GetModule() != at[0] || c.GetMetadata().GetSourceInfo().GetFile() != at[1] {
			add("merge.condition_attribution", "condition %s attributed to module %q file %q, declared in module %q file %q", cn, c.GetMetadata().GetModule(), c.GetMetadata().GetSourceInfo().GetFile(), at[0], at[1])
		}
	}
	for cn := range e.conds {
		if _, ok := m.GetConditions()[cn]; !ok {
			add("merge.condition_lost", "condition %s declared but missing from the result", cn)
		}
	}
	return mm
}

// checkConflicts: every injected conflict must be answered by an error naming
// a file that may legitimately be blamed for it.
func checkConflicts(o *mergeOutcome, wl *wlMerge, order []int, conflicts []Conflict) []mismatch {
	var mm []mismatch
	add := func(class, f string, a ...any) {
		mm = append(mm, mismatch{"C07", class, "", fmt.Sprintf(f, a...)})
	}
	delivered := map[string]bool{}
	for _, i := range order {
		delivered[wl.Files[i].deliveredName()] = true
	}
	for _, e := range o.Errs {
		if e.File != "" && !delivered[e.File] {
			add("merge.error_unknown_file", "error names file %q which was not delivered: %s", e.File, e.Msg)
		}
	}
	named := func(files []string, substr ...string) bool {
		for _, e := range o.Errs {
			okFile := false
			for _, f := range files {
				if e.File == f {
					okFile = true
				}
			}
			if !okFile {
				continue
			}
			ok := true
			for _, s := range substr {
				if !strings.Contains(e.Msg, s) {
					ok = false
				}
			}
			if ok {
				return true
			}
		}
		return false
	}
	for _, c := range conflicts {
		switch c.Kind {
		case "dup-type", "dup-cond":
			// the last delivered declaring file certainly holds a duplicate
			if !named(c.Files, c.Name) {
				add("merge.conflict_not_named", "%s %s: no error names file %s (errors: %s)", c.Kind, c.Name, c.Files[0], oneLineS(o.errText()))
			}
		case "extend-missing":
			if !named(c.Files, c.Name) {
				add("merge.conflict_not_named", "extension of missing type %s: no error names file %s (errors: %s)", c.Name, c.Files[0], oneLineS(o.errText()))
			}
		case "rel-base-ext", "rel-ext-ext":
			if !named(c.Files, c.Rel) {
				add("merge.conflict_not_named", "relation %s contributed twice to %s: no error names one of %v (errors: %s)", c.Rel, c.Name, c.Files, oneLineS(o.errText()))
			}
		case "nonmodule":
			if !named(c.Files) {
				add("merge.conflict_not_named", "non-module file %s: no error names it (errors: %s)", c.Files[0], oneLineS(o.errText()))
			}
		case "syntaxerr":
			// the statement does not require parse errors to name their file
		}
	}
	return mm
}

func oneLineS(s string) string {
	s = strings.ReplaceAll(s, "\n", " | ")
	if len(s) > 400 {
		s = s[:400] + "..."
	}
	return s
}

// ---------------------------------------------------------------------------

type mergeCtx struct {
	wl    *wlMerge
	exp   *expMerge
	canon *mergeOutcome
}

func newMergeCtx(wl *wlMerge) *mergeCtx {
	c := &mergeCtx{wl: wl, exp: refMerge(wl)}
	o := doMerge(deliver(wl, wl.Order), wl.Schema)
	if o.Model != nil {
		// a private copy: if the library hands out messages it keeps (an interned
		// SourceInfo), the canonical result must not change along with them
		o.Model = proto.Clone(o.Model).(*openfgav1.AuthorizationModel)
	}
	c.canon = &o
	return c
}

func sortedModel(m *openfgav1.AuthorizationModel) *openfgav1.AuthorizationModel {
	c := proto.Clone(m).(*openfgav1.AuthorizationModel)
	sort.SliceStable(c.TypeDefinitions, func(i, j int) bool { return c.TypeDefinitions[i].GetType() < c.TypeDefinitions[j].GetType() })
	return c
}

var warmInputs = []string{
	"model\n  schema 1.1\ntype user\ntype doc\n  relations\n    define a: [user] or b\n    define b: [user, user:*]\n",
	"module x\ntype user\nextend type doc\n  relations\n    define z: a from parent\n",
	"model\n  schema 1.1\ntype user\n  relations\n    define a: [user] or\n",
	"model\n  schema 1.1\ntype doc\n  relations\n    define a: (b and c) but not d\ncondition c(x: list<string>) {\n  x[0] == \"a\"\n}\n",
}

func prelude(cold bool, warm int) {
	if cold {
		parser.VerifColdRestart()
		simrt.CountFault("restart.cold")
	}
	for i := 0; i < warm; i++ {
		_, _, _ = transformer.TransformModularDSLToProto(warmInputs[i%len(warmInputs)])
		// the other entry points of the package are part of a process's past too:
		// the fga.mod reader (accepted and rejected manifests), the JSON printer
		switch i % 4 {
		case 1:
			_, _ = transformer.TransformModFile("schema: '1.2'\ncontents:\n  - core.fga\n  - wiki/a.fga\n")
		case 2:
			_, _ = transformer.TransformModFile("contents:\n  - ../core.fga\nschema: '0.9'\n")
		case 3:
			_, _ = transformer.TransformDSLToJSON("model\n  schema 1.1\ntype user\ntype doc\n  relations\n    define viewer: [user]\n")
		}
	}
	if warm > 0 {
		simrt.CountFault("history.warm")
	}
}

func (c *mergeCtx) check(cfg simrt.Config) ([]mismatch, simrt.Stats, string) {
	mm, st, summary := c.check0(cfg)
	return settleAborted([]string{"C07", "C12"}, c.wl.Variant == "concurrent", mm, st), st, summary
}

func (c *mergeCtx) check0(cfg simrt.Config) ([]mismatch, simrt.Stats, string) {
	var mm []mismatch
	add := func(prop, class, f string, a ...any) {
		mm = append(mm, mismatch{prop, class, "", fmt.Sprintf(f, a...)})
	}
	wl := c.wl
	evalC07 := func(o *mergeOutcome, order []int) {
		conflicts := deriveConflicts(wl, order)
		conflictFree := len(conflicts) == 0
		if o.Mutated {
			add("C13", "input.modified", "the file list was modified")
		}
		switch {
		case o.Panic != "":
			add("C07", "merge.panic", "panic: %s", o.Panic)
		case o.Err == nil && !conflictFree:
			add("C07", "merge.accepts_conflict", "merge succeeded despite %+v", conflicts)
		case o.Err != nil && conflictFree:
			add("C07", "merge.rejects_conflict_free", "merge failed on conflict-free files: %s", oneLineS(o.errText()))
		case o.Err != nil:
			if o.Model != nil {
				add("C07", "merge.partial_model", "an error was returned together with a model")
			}
			if len(o.Errs) == 0 {
				add("C07", "merge.empty_error", "error without entries")
			}
			mm = append(mm, checkConflicts(o, wl, order, conflicts)...)
		default:
			if o.Model == nil {
				add("C07", "merge.nil_model", "nil model without error")
			} else {
				mm = append(mm, compareMerged(o.Model, wl, c.exp)...)
			}
		}
	}
	sameOutcome := func(prop, class string, a, b *mergeOutcome) {
		if a.verdict() != b.verdict() {
			add(prop, class+".verdict", "%s vs %s", b.verdict(), a.verdict())
			return
		}
		if a.Err != nil {
			if a.errText() != b.errText() {
				add(prop, class+".errors", "error list differs: %s  VERSUS  %s", oneLineS(b.errText()), oneLineS(a.errText()))
			}
			return
		}
		if a.Model != nil && b.Model != nil && !proto.Equal(a.Model, b.Model) {
			add(prop, class+".model", "models differ: %s", modelDiff(b.Model, a.Model))
		}
	}
	switch wl.Variant {
	case "", "base":
		simrt.Begin(cfg)
		var o mergeOutcome
		simrt.Run([]func(){func() {
			prelude(wl.Cold, wl.Warm)
			if wl.Scribble {
				first := doMerge(deliver(wl, wl.Order), wl.Schema)
				scribbleModel(first.Model)
				var mv *transformer.ModuleValidationMultipleError
				if errors.As(first.Err, &mv) {
					for _, e := range mv.Errors {
						var se *transformer.ModuleTransformationSingleError
						if errors.As(e, &se) {
							se.Msg, se.File, se.Line.Start, se.Column.Start = "SCRIBBLED", "SCRIBBLED", -9, -9
						}
					}
				}
			}
			files := deliver(wl, wl.Order)
			if wl.ReuseList {
				// the caller keeps ONE list: it merged an earlier version of the
				// files (three more lines at the top of each), then replaced the
				// contents in place
				for i := range files {
					files[i].Contents = "# draft\n\n\n" + files[i].Contents
				}
				doMerge(files, wl.Schema)
				for i, f := range deliver(wl, wl.Order) {
					files[i].Contents = f.Contents
				}
				simrt.CountFault("history.list_reused")
			}
			o = doMerge(files, wl.Schema)
		}})
		st := simrt.End()
		evalC07(&o, wl.Order)
		sameOutcome("C12", "determinism", &o, c.canon)
		return mm, st, o.verdict()
	case "perm":
		simrt.Begin(cfg)
		simrt.CountFault("deliver.permute")
		var o mergeOutcome
		simrt.Run([]func(){func() { o = doMerge(deliver(wl, wl.AltOrder), wl.Schema) }})
		st := simrt.End()
		evalC07(&o, wl.AltOrder)
		if o.verdict() != c.canon.verdict() {
			add("C12", "permutation.verdict", "%s after permuting the file list %v -> %v, %s before", o.verdict(), wl.Order, wl.AltOrder, c.canon.verdict())
		} else if o.Err == nil && o.Model != nil && c.canon.Model != nil {
			if !proto.Equal(sortedModel(o.Model), sortedModel(c.canon.Model)) {
				add("C12", "permutation.model", "models differ beyond type order after permuting the file list: %s", modelDiff(sortedModel(c.canon.Model), sortedModel(o.Model)))
			}
		}
		return mm, st, o.verdict()
	case "concurrent":
		n := wl.Tasks
		if n < 2 {
			n = 2
		}
		outs := make([]mergeOutcome, n)
		fns := make([]func(), n)
		for t := 0; t < n; t++ {
			t := t
			fns[t] = func() {
				order := wl.Order
				if t%2 == 1 && len(wl.AltOrder) > 0 {
					order = wl.AltOrder
				}
				simrt.Note("merge", "invoke", int64(t))
				outs[t] = doMerge(deliver(wl, order), wl.Schema)
				simrt.Note("merge", "return", int64(t))
			}
		}
		simrt.Begin(cfg)
		if wl.Cold {
			parser.VerifColdRestart()
			simrt.CountFault("restart.cold")
		}
		simrt.Run(fns)
		st := simrt.End()
		if st.Deadlock {
			add("C13", "liveness.deadlock", "all tasks blocked")
		}
		if st.Overrun {
			// the run was cut by the step cap that protects the batch (crowded sets
			// of a thousand types merged by several tasks need more): the tasks were
			// unwound before they returned, their outcomes are not outcomes
			overrunSkipped++
			return mm, st, "cut by the step cap"
		}
		var alt *mergeOutcome
		if len(wl.AltOrder) > 0 {
			a := doMerge(deliver(wl, wl.AltOrder), wl.Schema)
			alt = &a
		}
		for t := 0; t < n; t++ {
			ref := c.canon
			if t%2 == 1 && alt != nil {
				ref = alt
			}
			sameOutcome("C12", "concurrent", &outs[t], ref)
		}
		return mm, st, fmt.Sprintf("%d merges", n)
	}
	return nil, simrt.Stats{}, "unknown variant"
}

func modelDiff(a, b *openfgav1.AuthorizationModel) string {
	da, db := dumpModel(a), dumpModel(b)
	if d := firstLineDiff(da, db); d != "" {
		return d
	}
	return "(dump equal; proto.Equal differs)"
}

func dumpModel(m *openfgav1.AuthorizationModel) string {
	var sb strings.Builder
	fmt.Fprintf(&sb, "schema %s\n", m.GetSchemaVersion())
	for _, td := range m.GetTypeDefinitions() {
		fmt.Fprintf(&sb, "type %s module=%q file=%q\n", td.GetType(), td.GetMetadata().GetModule(), td.GetMetadata().GetSourceInfo().GetFile())
		var rn []string
		for n := range td.GetRelations() {
			rn = append(rn, n)
		}
		sort.Strings(rn)
		for _, n := range rn {
			ex, _ := exprFromProto(td.GetRelations()[n])
			md := td.GetMetadata().GetRelations()[n]
			fmt.Fprintf(&sb, "  rel %s = %s direct=%v module=%q file=%q hasmeta=%v\n", n, exprKey(ex), md.GetDirectlyRelatedUserTypes(), md.GetModule(), md.GetSourceInfo().GetFile(), md != nil)
		}
	}
	var cn []string
	for n := range m.GetConditions() {
		cn = append(cn, n)
	}
	sort.Strings(cn)
	for _, n := range cn {
		c := m.GetConditions()[n]
		fmt.Fprintf(&sb, "cond %s expr=%q module=%q file=%q params=%d\n", n, c.GetExpression(), c.GetMetadata().GetModule(), c.GetMetadata().GetSourceInfo().GetFile(), len(c.GetParameters()))
	}
	return sb.String()
}

// ---------------------------------------------------------------------------

func mergeFamily(r *rng, nRandom int, seedBase uint64) []namedSched {
	var fam []namedSched
	fam = append(fam, namedSched{"reverse-all", simrt.Config{Policies: []simrt.Policy{{Mode: "reverse", Occ: -1}}}})
	fam = append(fam, namedSched{"lastfirst-all", simrt.Config{Policies: []simrt.Policy{{Mode: "lastfirst", Occ: -1}}}})
	for k := 1; k <= 5; k++ {
		fam = append(fam, namedSched{fmt.Sprintf("rotate-all-%d", k), simrt.Config{Policies: []simrt.Policy{{Mode: "rotate", K: k, Occ: -1}}}})
	}
	for k := 1; k <= 5; k++ {
		fam = append(fam, namedSched{fmt.Sprintf("rotate-extensions-%d", k), simrt.Config{Policies: []simrt.Policy{{Mode: "rotate", K: k, Site: "extendedTypeDefs", Occ: -1}}}})
	}
	for i := 0; i < nRandom; i++ {
		cfg := simrt.Config{
			Seed:       seedBase + uint64(i)*0x9e3779b97f4a7c15 + r.next(),
			Generative: true,
			MapDen:     []uint32{5, 5, 8, 16}[r.intn(4)],
			MapKinds:   0b11110,
			// only matters if the merger starts goroutines of its own: they
			// become simulated tasks and this is their preemption density
			PreemptDen: []uint32{0, 2, 4, 16}[r.intn(4)],
			MaxSteps:   5_000_000,
			// ambient faults: only matter if the merger reads a clock or the environment
			ClockDen:   []uint32{0, 2, 5}[r.intn(3)],
			ClockKinds: 0b11110,
		}
		fam = append(fam, namedSched{fmt.Sprintf("random-%d", i), cfg})
	}
	return fam
}

func mergeRunOne(b *BatchResult, prop string, seed, run uint64, nRandom int) {
	r := newRNG(seed, hashStr("mergesim"), hashStr(prop), run)
	nconf := 0
	if r.chance(50) {
		nconf = 1 + r.intn(3)
	}
	wl := genModuleSet(r, nconf)
	c := newMergeCtx(wl)
	b.Workloads++
	b.keySet[hashStr(wl.describe())] = true
	nExt := 0
	for _, f := range wl.Files {
		for _, bl := range f.Blocks {
			if bl.Extend {
				nExt++
			}
		}
	}
	conflicts := deriveConflicts(wl, wl.Order)
	nontriv := nExt >= 2 || len(conflicts) >= 1
	b.Mix["canon_"+c.canon.verdict()]++
	b.Mix[fmt.Sprintf("conflicts_%d", len(conflicts))]++
	for _, cf := range conflicts {
		b.Mix["conflict_"+cf.Kind]++
	}
	if nExt >= 2 {
		b.Mix["two_or_more_extensions"]++
	}
	report := func(w *wlMerge, s namedSched, mm []mismatch, st simrt.Stats) {
		for _, x := range mm {
			if x.prop != prop {
				continue
			}
			var wj []byte
			desc := ""
			if b.keeping() {
				wj, _ = json.Marshal(w)
				desc = w.describe()
			}
			cfg := s.cfg
			cfg.Tape = st.TapeUsed
			cfg.Generative = false
			v := Violation{Property: prop, Engine: "mergesim", Class: x.class, Detail: x.detail, Seed: seed, Run: run,
				Workload: wj, Sched: cfg, SchedName: s.name, Fingerprint: fpString(st.Fingerprint), Describe: desc}
			b.violation(v)
		}
	}
	canonS := namedSched{"canonical", simrt.Config{}}
	mm, st, summary := c.check(canonS.cfg)
	b.addStats(st, false)
	report(wl, canonS, mm, st)
	if len(b.Samples) < 3 && run%5 == 0 {
		b.Samples = append(b.Samples, Sample{Workload: wl.describe(), Sched: "canonical + family", Outcome: summary})
	}
	fam := mergeFamily(r, nRandom, seed^run<<20)
	for _, s := range fam {
		mm, st, _ := c.check(s.cfg)
		b.addStats(st, nontriv)
		report(wl, s, mm, st)
		if r.chance(2) {
			cfg := s.cfg
			cfg.Tape = st.TapeUsed
			cfg.Generative = false
			mm2, st2, _ := c.check(cfg)
			b.RerunN++
			if st2.Fingerprint != st.Fingerprint || len(mm2) != len(mm) {
				b.RerunDiv++
			}
		}
	}
	// history: cold restart / warm-up before the same call
	for i := 0; i < 2; i++ {
		w2 := *wl
		w2.Cold = i == 0
		w2.Warm = r.intn(4)
		w2.Scribble = r.chance(50)
		w2.ReuseList = r.chance(40)
		c2 := &mergeCtx{wl: &w2, exp: c.exp, canon: c.canon}
		s := fam[r.intn(len(fam))]
		mm, st, _ := c2.check(s.cfg)
		b.addStats(st, nontriv)
		report(&w2, s, mm, st)
	}
	// permutations of the delivery order
	for i := 0; i < 3; i++ {
		w3 := *wl
		w3.Variant = "perm"
		p := r.perm(len(wl.Order))
		w3.AltOrder = make([]int, len(p))
		for j, k := range p {
			w3.AltOrder[j] = wl.Order[k]
		}
		c3 := &mergeCtx{wl: &w3, exp: c.exp, canon: c.canon}
		s := canonS
		if i > 0 {
			s = fam[r.intn(len(fam))]
		}
		mm, st, _ := c3.check(s.cfg)
		b.addStats(st, nontriv)
		report(&w3, s, mm, st)
	}
	// two different files delivered under one name: every declaration of both
	// still counts ("none lost"), attribution and blame go to the shared name
	if run%5 == 0 && len(wl.Files) >= 2 {
		var w5 wlMerge
		bj, _ := json.Marshal(wl)
		_ = json.Unmarshal(bj, &w5)
		i, j := r.intn(len(w5.Files)), r.intn(len(w5.Files))
		if i != j && w5.Files[i].Kind == "module" && w5.Files[j].Kind == "module" {
			w5.Files[j].DeliverAs = w5.Files[i].Name
			c5 := newMergeCtx(&w5)
			for k := 0; k < 3; k++ {
				s := fam[r.intn(len(fam))]
				mm, st, _ := c5.check(s.cfg)
				b.addStats(st, true)
				report(&w5, s, mm, st)
			}
			for k := 0; k < 2; k++ {
				w6 := w5
				w6.Variant = "perm"
				p := r.perm(len(w5.Order))
				w6.AltOrder = make([]int, len(p))
				for q, x := range p {
					w6.AltOrder[q] = w5.Order[x]
				}
				c6 := &mergeCtx{wl: &w6, exp: c5.exp, canon: c5.canon}
				s := fam[r.intn(len(fam))]
				mm, st, _ := c6.check(s.cfg)
				b.addStats(st, true)
				report(&w6, s, mm, st)
			}
			b.Probes["same_name_file_sets"]++
		}
	}
	// concurrent merges
	if run%6 == 0 {
		w4 := *wl
		w4.Variant = "concurrent"
		w4.Tasks = 2 + r.intn(2)
		w4.Cold = r.chance(50)
		if r.chance(50) {
			p := r.perm(len(wl.Order))
			w4.AltOrder = make([]int, len(p))
			for j, k := range p {
				w4.AltOrder[j] = wl.Order[k]
			}
		}
		c4 := &mergeCtx{wl: &w4, exp: c.exp, canon: c.canon}
		cfg := simrt.Config{Seed: r.next(), Generative: true, PreemptDen: []uint32{2, 4, 16, 64}[r.intn(4)], MapDen: 8, MapKinds: 0b11110, MaxSteps: 5_000_000}
		s := namedSched{"concurrent-random", cfg}
		mm, st, _ := c4.check(cfg)
		b.addStats(st, true)
		report(&w4, s, mm, st)
		b.Probes["concurrent_runs"]++
		if st.Switches > 0 {
			b.Probes["concurrent_runs_with_switches"]++
		}
	}
}

func mergeCandidates(raw json.RawMessage) []json.RawMessage {
	var wl wlMerge
	if json.Unmarshal(raw, &wl) != nil {
		return nil
	}
	var out []json.RawMessage
	emit := func(w *wlMerge) {
		b, _ := json.Marshal(w)
		out = append(out, b)
	}
	clone := func() *wlMerge {
		var c wlMerge
		b, _ := json.Marshal(&wl)
		_ = json.Unmarshal(b, &c)
		return &c
	}
	// drop history
	if wl.Cold || wl.Warm > 0 {
		c := clone()
		c.Cold, c.Warm = false, 0
		emit(c)
	}
	// drop a delivered file (keep conflicts whose files are all still delivered)
	for p := range wl.Order {
		c := clone()
		c.Order = append(c.Order[:p], c.Order[p+1:]...)
		if len(c.AltOrder) > 0 {
			removed := wl.Order[p]
			for q, v := range c.AltOrder {
				if v == removed {
					c.AltOrder = append(c.AltOrder[:q], c.AltOrder[q+1:]...)
					break
				}
			}
		}
		emit(c)
	}
	// drop a block / a condition / a relation
	for fi, f := range wl.Files {
		for bi := range f.Blocks {
			c := clone()
			c.Files[fi].Blocks = append(c.Files[fi].Blocks[:bi], c.Files[fi].Blocks[bi+1:]...)
			emit(c)
			for ri := range f.Blocks[bi].Type.Relations {
				c := clone()
				t := c.Files[fi].Blocks[bi].Type
				t.Relations = append(t.Relations[:ri], t.Relations[ri+1:]...)
				emit(c)
			}
			for ri, rel := range f.Blocks[bi].Type.Relations {
				if rel.Expr != nil && rel.Expr.isOp() {
					c := clone()
					cr := c.Files[fi].Blocks[bi].Type.Relations[ri]
					cr.Expr = &Expr{Kind: KThis}
					cr.Direct = []Ref{{Type: "user"}}
					emit(c)
				}
			}
		}
		for ci := range f.Conds {
			c := clone()
			c.Files[fi].Conds = append(c.Files[fi].Conds[:ci], c.Files[fi].Conds[ci+1:]...)
			emit(c)
		}
	}
	return out
}

// deriveConflicts computes, from the plan and a delivery order alone, every
// conflict the statement lists (the expected outcome is a function of the
// plan, so reduced plans are judged as strictly as generated ones).
func deriveConflicts(wl *wlMerge, order []int) []Conflict {
	var out []Conflict
	type decl struct {
		file string
		pos  int
	}
	typeDecl := map[string][]decl{}
	condDecl := map[string][]decl{}
	type ext struct {
		file string
		typ  *Type
	}
	var exts []ext
	baseRels := map[string]map[string]bool{}
	for p, i := range order {
		f := wl.Files[i]
		switch f.Kind {
		case "nonmodule":
			out = append(out, Conflict{Kind: "nonmodule", Files: []string{f.deliveredName()}})
			continue
		case "syntaxerr":
			out = append(out, Conflict{Kind: "syntaxerr", Files: []string{f.deliveredName()}})
			continue
		}
		// problems the parser reports for a single file
		parseProblem := false
		extSeen := map[string]bool{}
		for _, b := range f.Blocks {
			seen := map[string]bool{}
			for _, r := range b.Type.Relations {
				if seen[r.Name] {
					parseProblem = true
				}
				seen[r.Name] = true
			}
			if b.Extend {
				if extSeen[b.Type.Name] {
					parseProblem = true
				}
				extSeen[b.Type.Name] = true
			}
		}
		cseen := map[string]bool{}
		for _, c := range f.Conds {
			if cseen[c.Name] {
				parseProblem = true
			}
			cseen[c.Name] = true
		}
		if parseProblem {
			out = append(out, Conflict{Kind: "syntaxerr", Files: []string{f.deliveredName()}})
			continue
		}
		for _, b := range f.Blocks {
			if b.Extend {
				exts = append(exts, ext{f.deliveredName(), b.Type})
				continue
			}
			typeDecl[b.Type.Name] = append(typeDecl[b.Type.Name], decl{f.deliveredName(), p})
			if len(typeDecl[b.Type.Name]) == 1 {
				baseRels[b.Type.Name] = map[string]bool{}
				for _, r := range b.Type.Relations {
					baseRels[b.Type.Name][r.Name] = true
				}
			}
		}
		for _, c := range f.Conds {
			condDecl[c.Name] = append(condDecl[c.Name], decl{f.deliveredName(), p})
		}
	}
	names := func(m map[string][]decl) []string {
		var ks []string
		for k := range m {
			ks = append(ks, k)
		}
		sort.Strings(ks)
		return ks
	}
	// any of the files involved in a conflict may be named for it: the
	// statement says "the offending file" without choosing between the two
	// sides of a duplicate
	filesOf := func(d []decl) []string {
		var fs []string
		for _, x := range d {
			fs = append(fs, x.file)
		}
		return fs
	}
	for _, n := range names(typeDecl) {
		if d := typeDecl[n]; len(d) >= 2 {
			out = append(out, Conflict{Kind: "dup-type", Name: n, Files: filesOf(d)})
		}
	}
	for _, n := range names(condDecl) {
		if d := condDecl[n]; len(d) >= 2 {
			out = append(out, Conflict{Kind: "dup-cond", Name: n, Files: filesOf(d)})
		}
	}
	contrib := map[string]map[string][]string{} // type -> relation -> extension files
	for _, e := range exts {
		if len(typeDecl[e.typ.Name]) == 0 {
			out = append(out, Conflict{Kind: "extend-missing", Name: e.typ.Name, Files: []string{e.file}})
			continue
		}
		if contrib[e.typ.Name] == nil {
			contrib[e.typ.Name] = map[string][]string{}
		}
		for _, r := range e.typ.Relations {
			contrib[e.typ.Name][r.Name] = append(contrib[e.typ.Name][r.Name], e.file)
		}
	}
	var tns []string
	for tn := range contrib {
		tns = append(tns, tn)
	}
	sort.Strings(tns)
	for _, tn := range tns {
		var rns []string
		for rn := range contrib[tn] {
			rns = append(rns, rn)
		}
		sort.Strings(rns)
		for _, rn := range rns {
			files := contrib[tn][rn]
			if baseRels[tn][rn] {
				out = append(out, Conflict{Kind: "rel-base-ext", Name: tn, Rel: rn, Files: append(append([]string(nil), files...), typeDecl[tn][0].file)})
			} else if len(files) >= 2 {
				out = append(out, Conflict{Kind: "rel-ext-ext", Name: tn, Rel: rn, Files: files})
			}
		}
	}
	return out
}
