package main

// puresim: concurrent callers, histories, shared inputs (C13) and the
// render mode for canonical DSL output (C14).

import (
	"bytes"
	"encoding/hex"
	"encoding/json"
	"fmt"
	"os"
	"os/exec"
	"path/filepath"
	"reflect"
	"runtime"
	"sort"
	"strconv"
	"strings"

	openfgav1 "github.com/openfga/api/proto/openfga/v1"
	parser "github.com/openfga/language/pkg/go/gen"
	"github.com/openfga/language/pkg/go/graph"
	"github.com/openfga/language/pkg/go/transformer"
	"github.com/openfga/language/pkg/go/utils"
	"github.com/openfga/language/pkg/go/validation"
	"google.golang.org/protobuf/encoding/protojson"
	"google.golang.org/protobuf/proto"

	"verifsim/simrt"
)

type pInput struct {
	Kind   string   `json:"kind"` // model | jmodel (JSON-only shape: `this` not first) | text | modset | modfile | str
	Model  *Model   `json:"model,omitempty"`
	Text   string   `json:"text,omitempty"`
	ModSet *wlMerge `json:"modset,omitempty"`
}

type pOp struct {
	Kind string `json:"k"`
	In   int    `json:"in"`
	Opt  bool   `json:"opt,omitempty"` // include source information
}

type wlPure struct {
	Inputs     []pInput `json:"inputs"`
	Warm       []pOp    `json:"warm,omitempty"`
	ColdBefore bool     `json:"cold_before,omitempty"`
	Tasks      [][]pOp  `json:"tasks"`
	// ProcessRestart: additionally execute the first call of task 0 as the very
	// first operation of a fresh OS process (restart.process) and compare.
	ProcessRestart bool `json:"process_restart,omitempty"`
	// SharedBuilder: every wgraph call of the run uses one
	// WeightedAuthorizationModelGraphBuilder value instead of a fresh one.
	SharedBuilder bool `json:"shared_builder,omitempty"`
	// ScribbleWarm: the caller writes all over the objects the warm-up calls
	// returned (models, graphs).
	ScribbleWarm bool `json:"scribble_warm,omitempty"`
	// EditInPlace: the model objects the tasks use have a past: the caller first
	// held a different model in the very same object (same pointer, same number
	// of type definitions, every type lacking one relation), had it rendered and
	// both graphs built from it, and then edited the object in place into the
	// input. A call's result may depend on the value of its argument only.
	EditInPlace bool `json:"edit_in_place,omitempty"`
}

// scribbleResults: set while the warm-up history of a run executes.
var scribbleResults bool

// sharedBuilder is set for the duration of a run when the workload asks for it.
var sharedBuilder *graph.WeightedAuthorizationModelGraphBuilder

// raceMode: this process is the -race worker (set from the command line, or
// when a race violation is replayed).
var raceMode bool

type firstOpRequest struct {
	Input pInput `json:"input"`
	Op    pOp    `json:"op"`
	// sequence mode: all inputs and a list of calls, executed in order
	Inputs []pInput `json:"inputs,omitempty"`
	Ops    []pOp    `json:"ops,omitempty"`
}

// cmdFirstOp: worker firstop < request.json ; prints the op's result. The op
// is the first thing this process does with the library.
func cmdFirstOp() {
	var req firstOpRequest
	if err := json.NewDecoder(os.Stdin).Decode(&req); err != nil {
		fmt.Fprintln(os.Stderr, "firstop:", err)
		os.Exit(2)
	}
	if len(req.Ops) > 0 {
		rin := make([]*rInput, len(req.Inputs))
		for i := range req.Inputs {
			rin[i] = realise(&req.Inputs[i])
		}
		out := make([]string, len(req.Ops))
		for i, op := range req.Ops {
			if op.In >= 0 && op.In < len(rin) {
				out[i] = execOp(op, rin[op.In])
			}
		}
		_ = json.NewEncoder(os.Stdout).Encode(out)
		return
	}
	op := req.Op
	op.In = 0
	fmt.Print(execOp(op, realise(&req.Input)))
}

// processSequenceResults: the given calls executed one after the other as the
// only thing a fresh OS process does (a sequential reference that no earlier
// run of this worker process can have influenced).
func processSequenceResults(inputs []pInput, ops []pOp) ([]string, error) {
	req, _ := json.Marshal(&firstOpRequest{Inputs: inputs, Ops: ops})
	cmd := exec.Command(os.Args[0], "firstop")
	cmd.Stdin = bytes.NewReader(req)
	cmd.Env = append(os.Environ(), "GORACE=exitcode=0 atexit_sleep_ms=0")
	out, err := cmd.Output()
	if err != nil {
		return nil, err
	}
	var res []string
	if err := json.Unmarshal(out, &res); err != nil {
		return nil, err
	}
	return res, nil
}

func processRestartResult(in *pInput, op pOp) (string, error) {
	req, _ := json.Marshal(&firstOpRequest{Input: *in, Op: op})
	cmd := exec.Command(os.Args[0], "firstop")
	cmd.Stdin = bytes.NewReader(req)
	cmd.Env = append(os.Environ(), "GORACE=exitcode=0 atexit_sleep_ms=0")
	out, err := cmd.Output()
	return string(out), err
}

// realised input
type rInput struct {
	in     *pInput
	dsl    string
	json   string
	pm     *openfgav1.AuthorizationModel
	pmCopy *openfgav1.AuthorizationModel
	files  []transformer.ModuleFile
	fcopy  []transformer.ModuleFile
	schema string
	// one plain graph built before the tasks start and queried by all of them
	// (read-only API on a shared object)
	sharedG *graph.AuthorizationModelGraph
	labels  []string
	// one weighted graph built before the tasks start; the tasks only read it
	sharedWG *graph.WeightedAuthorizationModelGraph
}

func realise(in *pInput) *rInput {
	r := &rInput{in: in}
	switch in.Kind {
	case "model", "jmodel":
		r.dsl = in.Model.toDSL()
		r.pm = in.Model.toProto()
		r.pmCopy = proto.Clone(r.pm).(*openfgav1.AuthorizationModel)
		b, err := protojson.Marshal(r.pm)
		if err != nil {
			fmt.Fprintln(os.Stderr, "worker: cannot marshal plan model:", err)
			os.Exit(2)
		}
		r.json = string(b)
		if wg, err := graph.NewWeightedAuthorizationModelGraphBuilder().Build(proto.Clone(r.pm).(*openfgav1.AuthorizationModel)); err == nil {
			r.sharedWG = wg
		}
		if g, err := graph.NewAuthorizationModelGraph(proto.Clone(r.pm).(*openfgav1.AuthorizationModel)); err == nil {
			r.sharedG = g
			for _, t := range in.Model.Types {
				r.labels = append(r.labels, t.Name)
				for _, rel := range t.Relations {
					r.labels = append(r.labels, t.Name+"#"+rel.Name)
				}
			}
			if len(r.labels) > 8 {
				r.labels = r.labels[:8]
			}
		}
	case "text", "modfile", "str":
		r.dsl = in.Text
		r.json = in.Text
	case "modset":
		r.files = deliver(in.ModSet, in.ModSet.Order)
		r.fcopy = append([]transformer.ModuleFile(nil), r.files...)
		r.schema = in.ModSet.Schema
	}
	return r
}

// earlierValueOf returns a new model object holding a different model with the
// same number of type definitions: every type has lost its last relation (by
// name) together with the metadata of that relation.
func earlierValueOf(pm *openfgav1.AuthorizationModel) *openfgav1.AuthorizationModel {
	obj := proto.Clone(pm).(*openfgav1.AuthorizationModel)
	for _, td := range obj.GetTypeDefinitions() {
		last := ""
		for n := range td.GetRelations() {
			if n > last {
				last = n
			}
		}
		if last == "" {
			continue
		}
		delete(td.Relations, last)
		if md := td.GetMetadata(); md != nil {
			delete(md.Relations, last)
		}
	}
	return obj
}

func (r *rInput) untouched() string {
	if r.pm != nil && !proto.Equal(r.pm, r.pmCopy) {
		return "the shared model was modified: " + modelDiff(r.pmCopy, r.pm)
	}
	for i := range r.fcopy {
		if i >= len(r.files) || r.files[i].Name != r.fcopy[i].Name || r.files[i].Contents != r.fcopy[i].Contents {
			return "the shared module file list was modified"
		}
	}
	return ""
}

func detBytes(m proto.Message) string {
	if m == nil {
		return "<nil>"
	}
	b, err := proto.MarshalOptions{Deterministic: true}.Marshal(m)
	if err != nil {
		return "marshal error: " + err.Error()
	}
	return hex.EncodeToString(b)
}

var opsByKind = map[string][]string{
	"model":   {"dsl2proto", "dsl2json", "moddsl2proto", "json2dsl", "proto2dsl", "plaingraph", "wgraph", "assignable", "graphquery", "wgraphquery", "wgraphquery", "loadjson", "mustdsl", "lineutils"},
	"jmodel":  {"json2dsl", "proto2dsl", "plaingraph", "wgraph", "assignable", "json2dsl", "proto2dsl", "graphquery", "wgraphquery", "wgraphquery", "loadjson"},
	"text":    {"dsl2proto", "dsl2json", "moddsl2proto", "json2dsl", "modfile", "loadjson", "mustdsl", "lineutils"},
	"modset":  {"merge"},
	"modfile": {"modfile"},
	"str":     {"validate"},
}

// execOp runs one public API call and renders its complete result as text.
func execOp(op pOp, r *rInput) string { return execOpKeep(op, r, nil) }

// execOpKeep additionally hands back, through keep, a function that renders the
// result of the call again from the very object the library returned (the
// string, the model, the graph - not a copy). Called after everything else has
// run, it must still give the same text: a result that aliases memory the
// library goes on using (a pooled buffer behind an unsafe string, a cached
// message handed out twice) changes under the caller's hands.
func execOpKeep(op pOp, r *rInput, keep *func() string) (res string) {
	if scribbleResults {
		keep = nil // the harness itself overwrites the returned objects
	}
	kept := func(f func() string) {
		if keep != nil {
			*keep = f
		}
	}
	defer func() {
		if p := recover(); p != nil {
			if simrt.IsAbort(p) {
				panic(p)
			}
			res = "PANIC: " + fmt.Sprint(p)
		}
	}()
	// options travel as a slice with spare capacity (what `append` hands out):
	// a callee that inserts or appends in place writes into the caller's array
	opts := make([]transformer.TransformOption, 0, 4)
	if op.Opt {
		opts = append(opts, transformer.WithIncludeSourceInformation(true))
	}
	defer func() {
		for _, o := range opts[len(opts):cap(opts)] {
			if o != nil {
				res = "INPUT-MODIFIED: the options slice passed as opts... was written to beyond its length"
			}
		}
	}()
	switch op.Kind {
	case "dsl2proto":
		m, err := transformer.TransformDSLToProto(r.dsl)
		if err != nil {
			return errRes("error: ", err, kept)
		}
		out := "model: " + detBytes(m)
		if scribbleResults {
			scribbleModel(m)
		}
		kept(func() string { return "model: " + detBytes(m) })
		return out
	case "dsl2json":
		s, err := transformer.TransformDSLToJSON(r.dsl)
		if err != nil {
			return errRes("error: ", err, kept)
		}
		kept(func() string { return "json: " + s })
		return "json: " + s
	case "moddsl2proto":
		m, ext, err := transformer.TransformModularDSLToProto(r.dsl)
		if err != nil {
			return errRes("error: ", err, kept)
		}
		var ks []string
		for k, td := range ext {
			ks = append(ks, k+"="+detBytes(td))
		}
		sort.Strings(ks)
		out := "model: " + detBytes(m) + " ext: " + strings.Join(ks, ",") + " extnil=" + strconv.FormatBool(ext == nil)
		if scribbleResults {
			scribbleModel(m)
			for _, td := range ext {
				scribbleProto(td)
			}
			if ext != nil {
				ext[scribbleText()] = &openfgav1.TypeDefinition{Type: scribbleText()}
			}
		}
		return out
	case "json2dsl":
		s, err := transformer.TransformJSONStringToDSL(r.json, opts...)
		if err != nil {
			return errRes("error: ", err, kept)
		}
		kept(func() string { return "dsl: " + *s })
		return "dsl: " + *s
	case "proto2dsl":
		s, err := transformer.TransformJSONProtoToDSL(r.pm, opts...)
		if err != nil {
			return errRes("error: ", err, kept)
		}
		kept(func() string { return "dsl: " + s })
		return "dsl: " + s
	case "plaingraph":
		g, err := graph.NewAuthorizationModelGraph(r.pm)
		if err != nil {
			return errRes("error: ", err, kept)
		}
		rev, err := g.Reversed()
		if err != nil {
			return errRes("error: reversed: ", err, kept)
		}
		if scribbleResults {
			defer scribblePlain(g)
			defer scribblePlain(rev)
		}
		cyc := "skipped"
		if g.Nodes().Len() <= 24 {
			cyc = cycleFlags(g.GetCycles())
		}
		out := "dot: " + g.GetDOT() + " rev: " + rev.GetDOT() + " cycles: " + cyc
		// the caller prunes a graph derived from these two (gonum's mutation API
		// is promoted through the embedded graph): their answers do not change
		if r2, err := rev.Reversed(); err == nil && len(r.labels) > 0 {
			look := func() string {
				var sb strings.Builder
				for _, l := range r.labels {
					_, e1 := g.GetNodeByLabel(l)
					_, e2 := rev.GetNodeByLabel(l)
					sb.WriteString(strconv.FormatBool(e1 == nil) + strconv.FormatBool(e2 == nil))
				}
				return sb.String()
			}
			before := look()
			it := r2.Nodes()
			var ids []int64
			for it.Next() {
				ids = append(ids, it.Node().ID())
			}
			sort.Slice(ids, func(i, j int) bool { return ids[i] < ids[j] })
			for i, id := range ids {
				if i%2 == 0 {
					r2.RemoveNode(id)
				}
			}
			if look() != before || "dot: "+g.GetDOT()+" rev: "+rev.GetDOT()+" cycles: "+cyc != out {
				out = "OBJECTS-NOT-INDEPENDENT: removing nodes from Reversed().Reversed() changed what the graph or its reversal answer (label lookup / DOT)"
			}
		}
		return out
	case "wgraph":
		builder := sharedBuilder
		if builder == nil {
			builder = graph.NewWeightedAuthorizationModelGraphBuilder()
		}
		g, err := builder.Build(r.pm)
		if err == nil && scribbleResults {
			defer scribbleWeighted(g)
		}
		if err != nil {
			// which of several applicable sentinel errors is returned may depend
			// on the traversal order (not fixed by any statement): verdict only
			return "rejected"
		}
		out := "graph: " + snapshot(g).text
		if scribbleResults {
			return out
		}
		// the caller keeps the nodes and edges, not the graph (which may then be
		// collected and finalised): they must go on saying what they said
		var nodes []*graph.WeightedAuthorizationModelNode
		var edges []*graph.WeightedAuthorizationModelEdge
		labels := make([]string, 0, len(g.GetNodes()))
		for l := range g.GetNodes() {
			labels = append(labels, l)
		}
		sort.Strings(labels)
		for _, l := range labels {
			nodes = append(nodes, g.GetNodes()[l])
			edges = append(edges, g.GetEdges()[l]...)
		}
		base := renderParts(nodes, edges)
		kept(func() string {
			if now := renderParts(nodes, edges); now != base {
				return "graph parts kept by the caller changed: " + diffAt(base, now)
			}
			return out
		})
		return out
	case "graphquery":
		g := r.sharedG
		if g == nil {
			return "no graph"
		}
		var sb strings.Builder
		sb.WriteString(g.GetDOT())
		rev, err := g.Reversed()
		if err != nil {
			return errRes("error: reversed: ", err, kept)
		}
		sb.WriteString(rev.GetDOT())
		for _, a := range r.labels {
			if n, err := g.GetNodeByLabel(a); err == nil {
				sb.WriteString(a + "=" + strconv.Itoa(int(n.NodeType())) + " ")
			}
			for _, b := range r.labels {
				p, _ := g.PathExists(a, b)
				q, _ := rev.PathExists(b, a)
				sb.WriteString(strconv.FormatBool(p) + strconv.FormatBool(q))
			}
		}
		// cycle enumeration is exponential in the number of cycles (not a
		// subject of C13): only on small graphs
		if g.Nodes().Len() <= 24 {
			sb.WriteString(cycleFlags(g.GetCycles()))
		}
		sb.WriteString(g.GetDOT())
		return sb.String()
	case "wgraphquery":
		// every read accessor of a finished weighted graph, on a shared object
		if r.sharedWG == nil {
			return "no weighted graph"
		}
		snap := snapshot(r.sharedWG).text
		var sb strings.Builder
		for _, l := range r.labels {
			if n, ok := r.sharedWG.GetNodeByID(l); ok {
				es, _ := r.sharedWG.GetEdgesFromNode(n)
				w, _ := n.GetWeight("user")
				sb.WriteString(l + ":" + strconv.Itoa(len(es)) + ":" + strconv.Itoa(w) + ":" + strings.Join(n.GetWildcards(), ",") + " ")
				for _, e := range es {
					ew, _ := e.GetWeight("user")
					sb.WriteString(strconv.Itoa(ew) + strings.Join(e.GetWildcards(), ",") + strings.Join(e.GetConditions(), ",") + " ")
				}
			}
		}
		return snap + sb.String()
	case "loadjson":
		m, err := transformer.LoadJSONStringToProto(r.json)
		if err != nil {
			return errRes("error: ", err, kept)
		}
		kept(func() string { return "model: " + detBytes(m) })
		return "model: " + detBytes(m)
	case "mustdsl":
		// the Must* variants panic on error: the panic value is the result
		m := transformer.MustTransformDSLToProto(r.dsl)
		j := transformer.MustTransformDSLToJSON(r.dsl)
		return "model: " + detBytes(m) + " json: " + j
	case "lineutils":
		lines := strings.Split(r.dsl, "\n")
		keep := append([]string(nil), lines...)
		defer func() {
			for i := range keep {
				if i >= len(lines) || lines[i] != keep[i] {
					res = "INPUT-MODIFIED: the lines slice passed to the line-number helpers was changed"
				}
			}
		}()
		var sb strings.Builder
		for _, n := range []string{"doc", "a", "viewer", "view", "c1", "group", "parent"} {
			i1, i2, i3, i4 := utils.GetTypeLineNumber(n, lines), utils.GetRelationLineNumber(n, lines), utils.GetConditionLineNumber(n, lines), utils.GetExtendedTypeLineNumber(n, lines)
			l, c := utils.ConstructLineAndColumnData(lines, i2, n)
			for _, x := range []int{i1, i2, i3, i4, l.Start, l.End, c.Start, c.End} {
				sb.WriteString(strconv.Itoa(x) + ",")
			}
			sb.WriteString(n + " ")
		}
		return sb.String()
	case "assignable":
		var out []string
		for _, td := range r.pm.GetTypeDefinitions() {
			var rn []string
			for n := range td.GetRelations() {
				rn = append(rn, n)
			}
			sort.Strings(rn)
			for _, n := range rn {
				mod, err := utils.GetModuleForObjectTypeRelation(td, n)
				es := ""
				if err != nil {
					es = err.Error()
				}
				out = append(out, td.GetType()+"#"+n+"="+strconv.FormatBool(utils.IsRelationAssignable(td.GetRelations()[n]))+"/"+mod+"/"+es)
			}
		}
		return strings.Join(out, " ")
	case "merge":
		o := doMerge(r.files, r.schema)
		if o.Panic != "" {
			return "PANIC: " + o.Panic
		}
		if o.Err != nil {
			return "errors: " + o.errText()
		}
		out := "model: " + detBytes(o.Model)
		if scribbleResults {
			scribbleModel(o.Model)
		}
		kept(func() string { return "model: " + detBytes(o.Model) })
		return out
	case "modfile":
		mf, err := transformer.TransformModFile(r.dsl)
		if err != nil {
			return errRes("error: ", err, kept)
		}
		// (no encoding/json here: its encoder pool would synchronise the tasks)
		var sb strings.Builder
		sb.WriteString("modfile: schema=" + strconv.Quote(mf.Schema.Value) + "@" + strconv.Itoa(mf.Schema.Line) + ":" + strconv.Itoa(mf.Schema.Column))
		sb.WriteString(" contents@" + strconv.Itoa(mf.Contents.Line) + ":" + strconv.Itoa(mf.Contents.Column))
		for _, c := range mf.Contents.Value {
			sb.WriteString(" " + strconv.Quote(c.Value) + "@" + strconv.Itoa(c.Line) + ":" + strconv.Itoa(c.Column))
		}
		return sb.String()
	case "validate":
		s := r.dsl
		var sb strings.Builder
		for _, b := range []bool{validation.ValidateObject(s), validation.ValidateObjectID(s), validation.ValidateRelation(s), validation.ValidateUserSet(s),
			validation.ValidateUserObject(s), validation.ValidateUserWildcard(s), validation.ValidateUser(s), validation.ValidateRelationshipCondition(s), validation.ValidateType(s)} {
			sb.WriteString(strconv.FormatBool(b) + " ")
		}
		return sb.String()
	}
	return "unknown op " + op.Kind
}

// errRes renders an error result and keeps the error object itself: looked at
// again after everything else has run, it must still carry the same message and
// the same details (file, line, column ... of every error in its tree). An error
// value is a result like any other; a library that hands out one shared error
// object and re-positions it for every call changes results the caller kept.
func errRes(prefix string, err error, kept func(func() string)) string {
	out := prefix + err.Error()
	base := errDetail(err)
	kept(func() string {
		if now := errDetail(err); now != base {
			return "error object kept by the caller changed: " + diffAt(base, now)
		}
		return prefix + err.Error()
	})
	return out
}

// errDetail renders the tree of an error: type, message and the exported
// scalar fields (one level of nested structs) of every node.
func errDetail(err error) string {
	var sb strings.Builder
	seen := 0
	var walk func(e error)
	walk = func(e error) {
		if e == nil || seen > 200 {
			return
		}
		seen++
		sb.WriteString(fmt.Sprintf("%T{%s", e, e.Error()))
		v := reflect.ValueOf(e)
		for v.Kind() == reflect.Ptr && !v.IsNil() {
			v = v.Elem()
		}
		var fields func(v reflect.Value, depth int)
		fields = func(v reflect.Value, depth int) {
			if v.Kind() != reflect.Struct {
				return
			}
			for i := 0; i < v.NumField(); i++ {
				f := v.Type().Field(i)
				if !f.IsExported() {
					continue
				}
				fv := v.Field(i)
				switch fv.Kind() {
				case reflect.String, reflect.Int, reflect.Int32, reflect.Int64, reflect.Bool, reflect.Uint32, reflect.Uint64:
					sb.WriteString(fmt.Sprintf(" %s=%v", f.Name, fv.Interface()))
				case reflect.Struct:
					if depth < 2 {
						sb.WriteString(" " + f.Name + "{")
						fields(fv, depth+1)
						sb.WriteString("}")
					}
				case reflect.Slice:
					if fv.Type().Elem().Implements(reflect.TypeOf((*error)(nil)).Elem()) {
						for j := 0; j < fv.Len(); j++ {
							if ce, ok := fv.Index(j).Interface().(error); ok {
								walk(ce)
							}
						}
					}
				}
			}
		}
		fields(v, 0)
		switch u := e.(type) {
		case interface{ Unwrap() error }:
			walk(u.Unwrap())
		case interface{ Unwrap() []error }:
			for _, ce := range u.Unwrap() {
				walk(ce)
			}
		}
		sb.WriteString("}")
	}
	walk(err)
	return sb.String()
}

type opResult struct {
	task  int
	op    pOp
	res   string
	input string        // "" or what was modified
	again func() string // renders the retained result object once more (nil: nothing retained)
}

type pureCtx struct {
	wl *wlPure
}

func newPureCtx(wl *wlPure) *pureCtx { return &pureCtx{wl: wl} }

func shorten(s string) string {
	s = strings.ReplaceAll(s, "\n", "\\n")
	if len(s) > 300 {
		return s[:300] + fmt.Sprintf("... (%d bytes)", len(s))
	}
	return s
}

func diffAt(a, b string) string {
	n := len(a)
	if len(b) < n {
		n = len(b)
	}
	i := 0
	for i < n && a[i] == b[i] {
		i++
	}
	lo := i - 60
	if lo < 0 {
		lo = 0
	}
	ha, hb := i+80, i+80
	if ha > len(a) {
		ha = len(a)
	}
	if hb > len(b) {
		hb = len(b)
	}
	return fmt.Sprintf("first difference at byte %d: ...%q  VERSUS  ...%q", i, a[lo:ha], b[lo:hb])
}

func (c *pureCtx) check(cfg simrt.Config) ([]mismatch, simrt.Stats, string) {
	var mm []mismatch
	add := func(class, f string, a ...any) {
		mm = append(mm, mismatch{"C13", class, "", fmt.Sprintf(f, a...)})
	}
	wl := c.wl
	rin := make([]*rInput, len(wl.Inputs))
	for i := range wl.Inputs {
		rin[i] = realise(&wl.Inputs[i])
	}
	valid := func(op pOp) bool { return op.In >= 0 && op.In < len(rin) }
	results := make([][]opResult, len(wl.Tasks))
	fns := make([]func(), len(wl.Tasks))
	for t, ops := range wl.Tasks {
		t, ops := t, ops
		fns[t] = func() {
			for _, op := range ops {
				if !valid(op) {
					continue
				}
				simrt.Note("op."+op.Kind, "invoke", int64(op.In))
				var again func() string
				res := execOpKeep(op, rin[op.In], &again)
				simrt.Note("op."+op.Kind, "return", int64(op.In))
				in := ""
				if !raceMode {
					// (proto.Equal and the diff use fmt and protobuf internals that
					// synchronise through pools; under the race detector the inputs
					// are compared after the tasks only)
					in = rin[op.In].untouched()
				}
				results[t] = append(results[t], opResult{task: t, op: op, res: res, input: in, again: again})
			}
		}
	}
	sharedBuilder = nil
	if wl.SharedBuilder {
		sharedBuilder = graph.NewWeightedAuthorizationModelGraphBuilder()
	}
	defer func() { sharedBuilder = nil }()
	// every run starts from a defined state of the process-global parser
	// caches (cold), so that a run is a function of its workload and tape only
	parser.VerifColdRestart()
	simrt.Begin(cfg)
	// history
	if len(wl.Warm) > 0 {
		simrt.CountFault("history.warm")
		scribbleResults = wl.ScribbleWarm
		for _, op := range wl.Warm {
			if valid(op) {
				_ = execOp(op, rin[op.In])
			}
		}
		scribbleResults = false
	}
	if wl.EditInPlace {
		for _, ri := range rin {
			if ri.pm == nil {
				continue
			}
			obj := earlierValueOf(ri.pm)
			past := &rInput{in: ri.in, pm: obj}
			for _, k := range []string{"plaingraph", "wgraph", "proto2dsl"} {
				_ = execOp(pOp{Kind: k}, past)
			}
			proto.Reset(obj)
			proto.Merge(obj, ri.pmCopy)
			ri.pm = obj
			simrt.CountFault("history.object_edited_in_place")
		}
	}
	if wl.ColdBefore {
		parser.VerifColdRestart()
		simrt.CountFault("restart.cold")
	}
	simrt.Run(fns)
	st := simrt.End()
	if st.Deadlock {
		add("liveness.deadlock", "every unfinished task is parked on a lock: deadlock")
	}
	// pristine references, computed after the faulted phase: cold restart,
	// single caller, canonical schedule, fresh inputs
	parser.VerifColdRestart()
	sharedBuilder = nil // references use a fresh builder per call
	refIn := make([]*rInput, len(wl.Inputs))
	for i := range wl.Inputs {
		refIn[i] = realise(&wl.Inputs[i])
	}
	refs := map[string]string{}
	refOf := func(op pOp) string {
		k := fmt.Sprintf("%s/%d/%v", op.Kind, op.In, op.Opt)
		if v, ok := refs[k]; ok {
			return v
		}
		v := execOp(op, refIn[op.In])
		refs[k] = v
		return v
	}
	// bounded liveness, relative to the sequential cost of the same calls: the
	// concurrent phase may not need more than 50x the yield points the calls
	// pass when executed one after the other by a single caller (+ 10 000 per
	// call). The absolute cap of the run (MaxSteps) only protects the batch:
	// when it is hit the same relative rule decides.
	{
		seqOf := map[string]int64{}
		var seq int64
		n := 0
		for _, ops := range wl.Tasks {
			for _, op := range ops {
				if !valid(op) {
					continue
				}
				k := fmt.Sprintf("%s/%d/%v", op.Kind, op.In, op.Opt)
				if _, ok := seqOf[k]; !ok {
					simrt.Begin(simrt.Config{})
					_ = refOf(op)
					seqOf[k] = simrt.End().SeqSteps
				}
				seq += seqOf[k]
				n++
			}
		}
		bound := 50*seq + 10000*int64(n)
		if st.Steps > bound || (st.Overrun && int64(cfg.MaxSteps) > bound) {
			add("liveness.overrun", "the concurrent phase needed %d scheduling steps (aborted=%v); the same %d calls pass %d yield points sequentially (bound %d): livelock or runaway loop under this interleaving", st.Steps, st.Overrun, n, seq, bound)
		}
	}
	nops := 0
	for t := range results {
		for _, rs := range results[t] {
			nops++
			if rs.input != "" {
				add("input.modified", "%s on input %d: %s", rs.op.Kind, rs.op.In, rs.input)
			}
			want := refOf(rs.op)
			if strings.HasPrefix(rs.res, "INPUT-MODIFIED") {
				add("input.modified", "%s on input %d: %s", rs.op.Kind, rs.op.In, rs.res)
			} else if strings.HasPrefix(rs.res, "OBJECTS-NOT-INDEPENDENT") {
				add("result.objects_share_state", "%s on input %d: %s", rs.op.Kind, rs.op.In, rs.res)
			} else if rs.res != want {
				class := "result.differs"
				if strings.HasPrefix(rs.res, "PANIC") {
					class = "result.panic"
				}
				add(class, "task %d %s(input %d, opt=%v): %s", rs.task, rs.op.Kind, rs.op.In, rs.op.Opt, diffAt(want, rs.res))
			}
		}
	}
	// results the callers kept: after all the other calls of the run (and the
	// reference calls) the objects the library handed out must still say what
	// they said when they were returned - also after a garbage collection in
	// which finalizers of objects the callers dropped have run
	runtime.GC()
	for i := 0; i < 10; i++ {
		runtime.Gosched()
	}
	simrt.RunPendingFinalizers()
	for _, op := range []pOp{{Kind: "wgraph"}, {Kind: "plaingraph"}, {Kind: "proto2dsl"}} {
		for i, ri := range refIn {
			if ri.pm != nil && i < 2 {
				_ = execOp(pOp{Kind: op.Kind, In: i}, ri)
			}
		}
	}
	for t := range results {
		for _, rs := range results[t] {
			if rs.again == nil {
				continue
			}
			func() {
				defer func() {
					if p := recover(); p != nil {
						add("result.changed_later", "task %d %s(input %d): rendering the retained result again panics: %v", rs.task, rs.op.Kind, rs.op.In, p)
					}
				}()
				if now := rs.again(); now != rs.res {
					add("result.changed_later", "task %d %s(input %d, opt=%v): the object the call returned changed after the call returned (aliases memory the library went on using): %s", rs.task, rs.op.Kind, rs.op.In, rs.op.Opt, diffAt(rs.res, now))
				}
			}()
		}
	}
	if wl.ProcessRestart {
		// every distinct call of the run, in a fresh process, one after the other
		var ops []pOp
		seen := map[string]bool{}
		for _, t := range wl.Tasks {
			for _, op := range t {
				k := fmt.Sprintf("%s/%d/%v", op.Kind, op.In, op.Opt)
				if valid(op) && !seen[k] {
					seen[k] = true
					ops = append(ops, op)
				}
			}
		}
		got, err := processSequenceResults(wl.Inputs, ops)
		if err != nil || len(got) != len(ops) {
			add("restart.process_failed", "the fresh process running the calls sequentially died: %v", err)
		} else {
			for i, op := range ops {
				if want := refOf(op); got[i] != want {
					add("restart.process_differs", "%s(input %d, opt=%v) in a fresh process: %s", op.Kind, op.In, op.Opt, diffAt(want, got[i]))
				}
			}
		}
	}
	if wl.ProcessRestart && len(wl.Tasks) > 0 && len(wl.Tasks[0]) > 0 && valid(wl.Tasks[0][0]) {
		op := wl.Tasks[0][0]
		got, err := processRestartResult(&wl.Inputs[op.In], op)
		if err != nil {
			add("restart.process_failed", "the fresh process running %s as its first call died: %v", op.Kind, err)
		} else if want := refOf(op); got != want {
			add("restart.process_differs", "%s(input %d) as the first call of a fresh process: %s", op.Kind, op.In, diffAt(want, got))
		}
	}
	for i, r := range rin {
		if msg := r.untouched(); msg != "" {
			add("input.modified", "input %d after the run: %s", i, msg)
		}
	}
	for i, r := range refIn {
		if msg := r.untouched(); msg != "" {
			add("input.modified", "input %d (sequential reference run): %s", i, msg)
		}
	}
	return mm, st, fmt.Sprintf("%d ops in %d tasks", nops, len(wl.Tasks))
}

// ---------------------------------------------------------------------------
// input pool generation

var validatorStrings = []string{"document:1", "group:eng#member", "user:*", "a b", "user:anne", "doc:", ":x", "folder:x#viewer#y", "type", "user:*#member", "org:acme/team", "x:y:z"}

var modFileTexts = []string{
	"schema: '1.2'\ncontents:\n  - core.fga\n  - wiki/a.fga\n",
	"schema: '1.1'\ncontents:\n  - core.fga\n",
	"schema: '1.2'\ncontents:\n  - ../core.fga\n  - /abs.fga\n  - a%2Fb.fga\n",
	"schema: '1.2'\n",
	"contents:\n  - core.fga\n  - wiki/a.fga\nschema: '1.0'\n",
	"# a comment first\n\nschema:   '0.9'\ncontents:\n  - core.fga\n",
	"contents:\n  - x.fga\n",
	"schema: '1.2'\ncontents: core.fga\n",
	"schema: [1.2]\ncontents:\n  - 1\n  - x.txt\n",
	": : :\n\t- broken",
}

func mutateText(r *rng, s string) string {
	if r.chance(3) {
		// a very long line (beyond 64 KiB buffer defaults): a comment, so the
		// document means the same
		lines := strings.Split(s, "\n")
		i := r.intn(len(lines) + 1)
		long := "# " + strings.Repeat("long comment ", 5400)
		lines = append(lines[:i], append([]string{long}, lines[i:]...)...)
		return strings.Join(lines, "\n")
	}
	switch r.intn(7) {
	case 0: // truncate
		if len(s) > 2 {
			return s[:1+r.intn(len(s)-1)]
		}
	case 1: // delete a line
		lines := strings.Split(s, "\n")
		if len(lines) > 2 {
			i := r.intn(len(lines))
			lines = append(lines[:i], lines[i+1:]...)
			return strings.Join(lines, "\n")
		}
	case 2: // duplicate a line
		lines := strings.Split(s, "\n")
		i := r.intn(len(lines))
		lines = append(lines[:i+1], lines[i:]...)
		return strings.Join(lines, "\n")
	case 3: // same length, one character changed
		if len(s) > 0 {
			b := []byte(s)
			i := r.intn(len(b))
			if b[i] >= 'a' && b[i] <= 'y' {
				b[i]++
			} else if b[i] != '\n' {
				b[i] = 'x'
			}
			return string(b)
		}
	case 4: // insert garbage
		g := []string{" or ", " and ", "[", "]", "(", ")", "#", " from ", "\n", ":", ",", " but not ", "define", "\t"}
		i := r.intn(len(s) + 1)
		return s[:i] + g[r.intn(len(g))] + s[i:]
	case 5: // swap two lines
		lines := strings.Split(s, "\n")
		if len(lines) > 3 {
			i, j := r.intn(len(lines)), r.intn(len(lines))
			lines[i], lines[j] = lines[j], lines[i]
			return strings.Join(lines, "\n")
		}
	case 6: // comment out a line
		lines := strings.Split(s, "\n")
		i := r.intn(len(lines))
		lines[i] = "# " + lines[i]
		return strings.Join(lines, "\n")
	}
	return s + "\n"
}

func attributeModel(r *rng, m *Model) {
	mods := []string{"core", "wiki", "acl"}
	files := []string{"core.fga", "wiki/a.fga", "acl.fga", "core/b.fga"}
	// module and file are usually set together (that is what the merger
	// produces) but they are independent fields: a module without a file and a
	// file without a module are legal too
	attr := func(p int) (string, string) {
		if !r.chance(p) {
			return "", ""
		}
		mod, file := r.pick(mods), r.pick(files)
		switch r.intn(10) {
		case 0:
			file = ""
		case 1:
			mod = ""
		}
		return mod, file
	}
	// sometimes only one class of item is attributed at all (a model whose
	// types carry no module but whose conditions or relations do)
	pt, pr, pc := 80, 40, 70
	if r.chance(15) {
		switch r.intn(4) {
		case 0:
			pt, pr = 0, 0
			pc = 100
		case 1:
			pt, pc = 0, 0
			pr = 70
		case 2:
			pr, pc = 0, 0
		case 3:
			pt, pr, pc = 0, 0, 0
			if len(m.Types) > 0 {
				t := m.Types[r.intn(len(m.Types))]
				t.Module, t.File = attr(100)
			}
		}
	}
	for _, t := range m.Types {
		if pt > 0 {
			t.Module, t.File = attr(pt)
		}
		for _, rel := range t.Relations {
			rel.Module, rel.File = attr(pr)
		}
	}
	for _, c := range m.Conds {
		c.Module, c.File = attr(pc)
	}
	// a relation without a direct assignment may lack its metadata entry
	// altogether (JSON / protobuf): it is unattributed like one whose entry
	// names no module
	if r.chance(12) {
		for _, t := range m.Types {
			for _, rel := range t.Relations {
				if len(rel.Direct) == 0 && !containsThis(rel.Expr) && r.chance(50) {
					rel.NoMeta = true
					rel.Module, rel.File = "", ""
				}
			}
		}
	}
}

// unhoist moves the direct assignment of unions/intersections away from the
// first position (the printer hoists it back; JSON and proto models may have
// it anywhere).
func unhoist(r *rng, m *Model) {
	var rec func(e *Expr)
	rec = func(e *Expr) {
		if e == nil {
			return
		}
		if (e.Kind == KUnion || e.Kind == KInter) && len(e.Children) >= 2 && e.Children[0].Kind == KThis {
			j := 1 + r.intn(len(e.Children)-1)
			e.Children[0], e.Children[j] = e.Children[j], e.Children[0]
		}
		for _, c := range e.Children {
			rec(c)
		}
	}
	for _, t := range m.Types {
		for _, rel := range t.Relations {
			rec(rel.Expr)
		}
	}
}

// genBroadWorkload: every kind of call, from 2-3 tasks, on shared inputs, no
// history - meant to be the very first thing a fresh process does, so that
// first-use initialisation of any process-global state runs concurrently.
func genBroadWorkload(r *rng) *wlPure {
	wl := &wlPure{}
	m := genDSLModel(r)
	jm := genDSLModel(r)
	unhoist(r, jm)
	attributeModel(r, jm)
	wl.Inputs = []pInput{
		{Kind: "model", Model: m},
		{Kind: "jmodel", Model: jm},
		{Kind: "text", Text: mutateText(r, m.toDSL())},
		{Kind: "modset", ModSet: genModuleSet(r, r.intn(2))},
		{Kind: "modfile", Text: r.pick(modFileTexts)},
		{Kind: "str", Text: r.pick(validatorStrings)},
	}
	nt := 2 + r.intn(2)
	for t := 0; t < nt; t++ {
		var ops []pOp
		for i, in := range wl.Inputs {
			seen := map[string]bool{}
			for _, k := range opsByKind[in.Kind] {
				if !seen[k] {
					seen[k] = true
					ops = append(ops, pOp{Kind: k, In: i, Opt: r.chance(50)})
				}
			}
		}
		p := r.perm(len(ops))
		sh := make([]pOp, len(ops))
		for i, j := range p {
			sh[i] = ops[j]
		}
		// keep runs short: a random two thirds of the calls
		wl.Tasks = append(wl.Tasks, sh[:len(sh)*2/3])
	}
	wl.SharedBuilder = r.chance(50)
	return wl
}

// genReaderStorm: 2-3 tasks that only read objects built before they start
// (a finished plain graph and a finished weighted graph per model, and the
// shared model itself). No call enters the parser, so nothing orders the
// tasks: a read accessor that writes (lazy initialisation, sorting or caching
// inside a getter) is reported by the race detector.
func genReaderStorm(r *rng) *wlPure {
	wl := &wlPure{}
	for i := 0; i < 2; i++ {
		m := genDSLModel(r)
		kind := "model"
		if r.chance(40) {
			unhoist(r, m)
			kind = "jmodel"
		}
		if r.chance(40) {
			attributeModel(r, m)
		}
		wl.Inputs = append(wl.Inputs, pInput{Kind: kind, Model: m})
	}
	readers := []string{"wgraphquery", "graphquery", "assignable", "proto2dsl"}
	nt := 2 + r.intn(2)
	for t := 0; t < nt; t++ {
		var ops []pOp
		for _, i := range r.perm(len(wl.Inputs)) {
			for _, j := range r.perm(len(readers))[:2+r.intn(2)] {
				ops = append(ops, pOp{Kind: readers[j], In: i, Opt: r.chance(50)})
			}
		}
		wl.Tasks = append(wl.Tasks, ops)
	}
	return wl
}

// genMergeStorm: 2-3 tasks merging the same crowded module sets (many files,
// colliding names, conflicts) - the sizes at which a merge might fan out.
func genMergeStorm(r *rng) *wlPure {
	wl := &wlPure{}
	n := 1 + r.intn(2)
	for i := 0; i < n; i++ {
		wl.Inputs = append(wl.Inputs, pInput{Kind: "modset", ModSet: genModuleSetOpt(r, 1+r.intn(3), true)})
	}
	nt := 2 + r.intn(2)
	for t := 0; t < nt; t++ {
		var ops []pOp
		for _, i := range r.perm(len(wl.Inputs)) {
			ops = append(ops, pOp{Kind: "merge", In: i, Opt: r.chance(50)})
		}
		wl.Tasks = append(wl.Tasks, ops)
	}
	return wl
}

func genPureWorkload(r *rng) *wlPure {
	if r.chance(12) {
		return genReaderStorm(r)
	}
	if r.chance(3) {
		return genMergeStorm(r)
	}
	wl := &wlPure{}
	nIn := 2 + r.intn(4)
	var baseDSL []string
	for i := 0; i < nIn; i++ {
		switch x := r.intn(100); {
		case x < 45:
			m := genDSLModel(r)
			if r.chance(3) {
				m = genWideModel(r)
			}
			if r.chance(35) {
				attributeModel(r, m)
			}
			if r.chance(12) {
				// a tupleset that also allows a type which lacks the computed relation:
				// the plain graph skips that parent, the weighted graph rejects the
				// model - neither may touch the model on the way
				if bad := addRelationlessParent(r, m); bad != nil {
					m = bad
				}
			}
			wl.Inputs = append(wl.Inputs, pInput{Kind: "model", Model: m})
			baseDSL = append(baseDSL, m.toDSL())
		case x < 55:
			// a JSON-only shape the printer accepts: the direct assignment is not
			// the first child of its union / intersection (it gets hoisted)
			m := genDSLModel(r)
			unhoist(r, m)
			if r.chance(35) {
				attributeModel(r, m)
			}
			if len(m.Conds) > 0 && r.chance(10) {
				// JSON-only: a container parameter without element type (the
				// printer panics on it; the panic is the - reproducible - result)
				c := m.Conds[r.intn(len(m.Conds))]
				c.Params = append(c.Params, Param{Name: "zz", Type: "list"})
			}
			if len(m.Conds) > 0 && r.chance(30) {
				// JSON-only: a condition whose nested name is missing, or differs
				// from the key it is stored under
				c := m.Conds[r.intn(len(m.Conds))]
				c.Key = c.Name
				c.Name = []string{"", "", c.Name + "x"}[r.intn(3)]
			}
			wl.Inputs = append(wl.Inputs, pInput{Kind: "jmodel", Model: m})
		case x < 70:
			var src string
			if len(baseDSL) > 0 && r.chance(70) {
				src = baseDSL[r.intn(len(baseDSL))]
			} else {
				src = genDSLModel(r).toDSL()
				baseDSL = append(baseDSL, src)
			}
			n := 1 + r.intn(2)
			for j := 0; j < n; j++ {
				src = mutateText(r, src)
			}
			wl.Inputs = append(wl.Inputs, pInput{Kind: "text", Text: src})
		case x < 85:
			nc := 0
			if r.chance(40) {
				nc = 1 + r.intn(2)
			}
			wl.Inputs = append(wl.Inputs, pInput{Kind: "modset", ModSet: genModuleSet(r, nc)})
		case x < 93:
			wl.Inputs = append(wl.Inputs, pInput{Kind: "modfile", Text: r.pick(modFileTexts)})
		default:
			wl.Inputs = append(wl.Inputs, pInput{Kind: "str", Text: r.pick(validatorStrings)})
		}
	}
	// a quarter of the workloads make no call that enters the parser: the
	// parser's global locks synchronise the tasks "by accident" (a lock
	// released by one task and acquired by another orders everything before
	// with everything after), which can hide races in lock-free code
	noParse := r.chance(25)
	parses := map[string]bool{"dsl2proto": true, "dsl2json": true, "moddsl2proto": true, "merge": true}
	pickOp := func() pOp {
		for tries := 0; ; tries++ {
			i := r.intn(len(wl.Inputs))
			ks := opsByKind[wl.Inputs[i].Kind]
			k := ks[r.intn(len(ks))]
			if noParse && parses[k] && tries < 50 {
				continue
			}
			return pOp{Kind: k, In: i, Opt: r.chance(40)}
		}
	}
	nt := 1 + r.intn(4)
	shared := r.chance(60)
	var sharedOps []pOp
	if shared {
		for i := 0; i < 1+r.intn(3); i++ {
			sharedOps = append(sharedOps, pickOp())
		}
	}
	for t := 0; t < nt; t++ {
		var ops []pOp
		n := 1 + r.intn(5)
		for i := 0; i < n; i++ {
			if shared && r.chance(60) {
				ops = append(ops, sharedOps[r.intn(len(sharedOps))])
			} else {
				ops = append(ops, pickOp())
			}
		}
		wl.Tasks = append(wl.Tasks, ops)
	}
	if r.chance(50) {
		for i := 0; i < 1+r.intn(4); i++ {
			wl.Warm = append(wl.Warm, pickOp())
		}
	}
	wl.ColdBefore = r.chance(50)
	wl.SharedBuilder = r.chance(40)
	wl.ScribbleWarm = len(wl.Warm) > 0 && r.chance(50)
	wl.EditInPlace = r.chance(20)
	return wl
}

func (wl *wlPure) describe() string {
	var sb strings.Builder
	for i, in := range wl.Inputs {
		fmt.Fprintf(&sb, "input %d (%s):\n", i, in.Kind)
		switch in.Kind {
		case "model", "jmodel":
			sb.WriteString(in.Model.toDSL())
		case "modset":
			sb.WriteString(in.ModSet.describe())
		default:
			sb.WriteString(in.Text + "\n")
		}
	}
	fmt.Fprintf(&sb, "warm history: %v cold restart before tasks: %v shared weighted builder: %v\n", wl.Warm, wl.ColdBefore, wl.SharedBuilder)
	for t, ops := range wl.Tasks {
		fmt.Fprintf(&sb, "task %d: %v\n", t, ops)
	}
	return sb.String()
}

func pureSched(r *rng, ntasks int) namedSched {
	cfg := simrt.Config{Seed: r.next(), Generative: true, MaxSteps: 20_000_000}
	// (with a single task this only matters if the library starts goroutines)
	cfg.PreemptDen = []uint32{2, 3, 8, 32, 128, 1024}[r.intn(6)]
	if r.chance(50) {
		cfg.MapDen = []uint32{5, 8, 16}[r.intn(3)]
		cfg.MapKinds = 0b11110
	}
	if r.chance(50) {
		cfg.ClockDen = []uint32{2, 5, 9}[r.intn(3)]
		cfg.ClockKinds = 0b11110
	}
	return namedSched{"random", cfg}
}

// raceLogOffset / readRaceLog: the race detector appends its reports to
// $VERIF_RACELOG.<pid>; whatever appears during a run belongs to that run.
var raceLogPath = func() string {
	if p := os.Getenv("VERIF_RACELOG"); p != "" {
		return fmt.Sprintf("%s.%d", p, os.Getpid())
	}
	return ""
}()

func raceLogSize() int64 {
	if raceLogPath == "" {
		return 0
	}
	fi, err := os.Stat(raceLogPath)
	if err != nil {
		return 0
	}
	return fi.Size()
}

func raceLogSince(off int64) string {
	if raceLogPath == "" {
		return ""
	}
	f, err := os.Open(raceLogPath)
	if err != nil {
		return ""
	}
	defer f.Close()
	if _, err := f.Seek(off, 0); err != nil {
		return ""
	}
	buf := make([]byte, 1<<16)
	n, _ := f.Read(buf)
	return string(buf[:n])
}

func pureRunOne(b *BatchResult, prop string, seed, run uint64, race bool, restartEvery uint64) {
	r := newRNG(seed, hashStr("puresim"), hashStr(prop), run)
	wl := genPureWorkload(r)
	if restartEvery > 0 && run%restartEvery == 0 && !race {
		wl.ProcessRestart = true
		b.Faults["restart.process"]++
	}
	c := newPureCtx(wl)
	b.Workloads++
	b.keySet[hashStr(wl.describe())] = true
	s := pureSched(r, len(wl.Tasks))
	off := raceLogSize()
	mm, st, summary := c.check(s.cfg)
	nontriv := len(wl.Tasks) > 1 || len(wl.Warm) > 0 || wl.ColdBefore
	b.addStats(st, nontriv)
	b.Mix[fmt.Sprintf("tasks_%d", len(wl.Tasks))]++
	if wl.ColdBefore {
		b.Mix["cold_before"]++
	}
	if len(wl.Warm) > 0 {
		b.Mix["warm_history"]++
	}
	if st.Switches > 0 {
		b.Mix["runs_with_task_switches"]++
	}
	if st.Faults["lock.contend"] > 0 {
		b.Mix["runs_with_lock_contention"]++
	}
	wj, _ := json.Marshal(wl)
	cfg := s.cfg
	cfg.Tape = st.TapeUsed
	cfg.Generative = false
	for _, x := range mm {
		if x.prop != prop {
			continue
		}
		v := Violation{Property: prop, Engine: "puresim", Class: x.class, Detail: x.detail, Seed: seed, Run: run,
			Workload: wj, Sched: cfg, SchedName: s.name, Fingerprint: fpString(st.Fingerprint), Describe: wl.describe()}
		b.violation(v)
	}
	if race {
		if rep := raceLogSince(off); strings.Contains(rep, "DATA RACE") {
			b.Probes["race_reports"]++
			class := "race.data_race"
			if !strings.Contains(rep, "openfga/language") && !strings.Contains(rep, "antlr") && !strings.Contains(rep, "gonum") && !strings.Contains(rep, "ulid") {
				class = "race.harness_only"
			}
			v := Violation{Property: prop, Engine: "puresim", Class: class, Detail: firstRaceFrames(rep), Seed: seed, Run: run,
				Workload: wj, Sched: cfg, SchedName: s.name, Fingerprint: fpString(st.Fingerprint), Describe: wl.describe(), RaceReport: rep}
			b.violation(v)
		}
	}
	if race && restartEvery > 0 && run%12 == 0 {
		coldProcessRaceProbe(b, prop, seed, run, r)
	}
	if len(b.Samples) < 3 && run%5 == 0 {
		b.Samples = append(b.Samples, Sample{Workload: shortenLines(wl.describe(), 40), Sched: fmt.Sprintf("preempt 1/%d, %d switches, %d steps", s.cfg.PreemptDen, st.Switches, st.Steps), Outcome: summary})
	}
	// identical tape re-execution (uncontrolled-source detector)
	if r.chance(3) && !race {
		_, st2, _ := c.check(cfg)
		b.RerunN++
		if st2.Fingerprint != st.Fingerprint {
			b.RerunDiv++
		}
	}
}

func shortenLines(s string, n int) string {
	lines := strings.Split(s, "\n")
	if len(lines) > n {
		lines = append(lines[:n], fmt.Sprintf("... (%d more lines)", len(lines)-n))
	}
	return strings.Join(lines, "\n")
}

func firstRaceFrames(rep string) string {
	var out []string
	for _, l := range strings.Split(rep, "\n") {
		l = strings.TrimSpace(l)
		if strings.HasPrefix(l, "Write at") || strings.HasPrefix(l, "Read at") || strings.HasPrefix(l, "Previous") {
			out = append(out, l)
		} else if strings.Contains(l, "()") && len(out) > 0 && len(out) < 7 {
			out = append(out, l)
		}
	}
	return strings.Join(out, " | ")
}

func pureCandidates(raw json.RawMessage) []json.RawMessage {
	var wl wlPure
	if json.Unmarshal(raw, &wl) != nil {
		return nil
	}
	var out []json.RawMessage
	clone := func() *wlPure {
		var c wlPure
		b, _ := json.Marshal(&wl)
		_ = json.Unmarshal(b, &c)
		return &c
	}
	emit := func(c *wlPure) {
		b, _ := json.Marshal(c)
		out = append(out, b)
	}
	if len(wl.Warm) > 0 {
		c := clone()
		c.Warm = nil
		emit(c)
		for i := range wl.Warm {
			c := clone()
			c.Warm = append(c.Warm[:i], c.Warm[i+1:]...)
			emit(c)
		}
	}
	if wl.ColdBefore {
		c := clone()
		c.ColdBefore = false
		emit(c)
	}
	for t := range wl.Tasks {
		if len(wl.Tasks) > 1 {
			c := clone()
			c.Tasks = append(c.Tasks[:t], c.Tasks[t+1:]...)
			emit(c)
		}
		for i := range wl.Tasks[t] {
			if len(wl.Tasks[t]) > 1 {
				c := clone()
				c.Tasks[t] = append(c.Tasks[t][:i], c.Tasks[t][i+1:]...)
				emit(c)
			}
		}
	}
	// shrink inputs that are still referenced
	for i, in := range wl.Inputs {
		switch in.Kind {
		case "model", "jmodel":
			for _, cm := range modelCandidates(in.Model) {
				c := clone()
				c.Inputs[i].Model = cm
				emit(c)
			}
		case "text":
			lines := strings.Split(in.Text, "\n")
			for li := range lines {
				if len(lines) <= 1 {
					break
				}
				c := clone()
				c.Inputs[i].Text = strings.Join(append(append([]string(nil), lines[:li]...), lines[li+1:]...), "\n")
				emit(c)
			}
		case "modset":
			b, _ := json.Marshal(in.ModSet)
			for _, cand := range mergeCandidates(b) {
				var ms wlMerge
				if json.Unmarshal(cand, &ms) == nil {
					c := clone()
					c.Inputs[i].ModSet = &ms
					emit(c)
				}
			}
		}
	}
	return out
}

// coldProcessRaceProbe (restart.process for the race build): a broad
// concurrent workload is executed as the first thing a fresh -race process
// does; its race log is read back. Replaying the violation file is the same
// thing (a replay is a fresh process).
// genNarrowWorkload: 2-3 tasks whose first (and only) calls are of one or two
// given kinds. Calls that take no common lock create no happens-before edge
// between the tasks, so a first-use race in process-global state cannot be
// masked by "accidental" synchronisation through the parser's locks.
func genNarrowWorkload(r *rng, kinds []string) *wlPure {
	wl := genBroadWorkload(r)
	wl.Tasks = nil
	nt := 2 + r.intn(2)
	for t := 0; t < nt; t++ {
		kind := kinds[t%len(kinds)]
		var ops []pOp
		for i, in := range wl.Inputs {
			for _, k := range opsByKind[in.Kind] {
				if k == kind {
					ops = append(ops, pOp{Kind: k, In: i, Opt: r.chance(50)})
				}
			}
		}
		if len(ops) == 0 {
			continue
		}
		first := ops[r.intn(len(ops))]
		task := []pOp{first}
		if r.chance(40) {
			task = append(task, ops[r.intn(len(ops))])
		}
		wl.Tasks = append(wl.Tasks, task)
	}
	return wl
}

var allOpKinds = []string{"validate", "modfile", "dsl2proto", "dsl2json", "moddsl2proto", "json2dsl", "proto2dsl", "plaingraph", "wgraph", "assignable", "merge", "graphquery", "wgraphquery", "loadjson", "mustdsl", "lineutils"}

func coldProcessRaceProbe(b *BatchResult, prop string, seed, run uint64, r *rng) {
	var wl *wlPure
	q := int(run / 12)
	switch {
	case q%3 != 2:
		// sweep over the kinds: every kind gets its own cold process
		wl = genNarrowWorkload(r, []string{allOpKinds[(q-q/3)%len(allOpKinds)]})
		b.Probes["cold_process_probes_one_kind"]++
	case r.chance(70):
		wl = genNarrowWorkload(r, []string{r.pick(allOpKinds), r.pick(allOpKinds)})
		b.Probes["cold_process_probes_two_kinds"]++
	default:
		wl = genBroadWorkload(r)
		b.Probes["cold_process_probes_broad"]++
	}
	s := pureSched(r, len(wl.Tasks))
	s.cfg.MapDen, s.cfg.ClockDen = 0, 0
	wj, _ := json.Marshal(wl)
	v := Violation{Property: prop, Engine: "puresim", Class: "race.data_race", Seed: seed, Run: run, Workload: wj, Sched: s.cfg,
		SchedName: "cold-process-random", Describe: wl.describe(), RaceReport: "pending"}
	dir, err := os.MkdirTemp("", "verif-coldrace-")
	if err != nil {
		return
	}
	if os.Getenv("VERIF_KEEP_PROBES") == "" {
		defer os.RemoveAll(dir)
	}
	vf := dir + "/v.json"
	if writeJSON(vf, &v) != nil {
		return
	}
	cmd := exec.Command(os.Args[0], "replay", "-file", vf, "-out", dir+"/res.json")
	cmd.Env = append(os.Environ(), "GOMAXPROCS=1", "GORACE=log_path="+dir+"/race halt_on_error=0 exitcode=0 atexit_sleep_ms=0 history_size=4", "VERIF_RACELOG="+dir+"/race")
	if out, err := cmd.CombinedOutput(); err != nil {
		b.Probes["cold_process_probe_failed"]++
		_ = out
		return
	}
	b.Faults["restart.process"]++
	b.Probes["cold_process_race_probes"]++
	b.Evaluations++
	data, err := os.ReadFile(dir + "/res.json")
	if err != nil {
		return
	}
	var res replayResult
	if json.Unmarshal(data, &res) != nil {
		return
	}
	// the child records the executed tape in the result's fingerprint only; the
	// violation keeps the generative seed, which replays identically
	if res.Reproduced {
		v.Detail = res.Detail
		v.Fingerprint = res.Fingerprint
		logs, _ := os.ReadFile(firstMatch(dir + "/race.*"))
		v.RaceReport = string(logs)
		if len(v.RaceReport) > 1<<16 {
			v.RaceReport = v.RaceReport[:1<<16]
		}
		v.Sched.Generative = true
		b.Probes["race_reports"]++
		b.violation(v)
	}
}

func firstMatch(pat string) string {
	m, _ := filepath.Glob(pat)
	if len(m) > 0 {
		return m[0]
	}
	return ""
}
