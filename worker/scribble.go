package main

// Scribbling: what a caller may legitimately do with objects the library
// RETURNED - overwrite every field, slice element and map entry it can reach.
// None of that may influence a later call (a result that aliases
// process-global state, an interned message, a shared attribute slice).

import (
	"strconv"

	openfgav1 "github.com/openfga/api/proto/openfga/v1"
	"github.com/openfga/language/pkg/go/graph"
	"gonum.org/v1/gonum/graph/encoding"
	"google.golang.org/protobuf/proto"
	"google.golang.org/protobuf/reflect/protoreflect"
)

// scribbleCount makes every scribble write a different value: an object the
// library interned and handed out twice then changes AGAIN between a canonical
// call made before this scribble and the call made after it.
var scribbleCount int

func scribbleText() string {
	return "SCRIBBLED-" + strconv.Itoa(scribbleCount)
}

// scribbleProto overwrites every scalar it can reach in a message tree.
func scribbleProto(m proto.Message) {
	if m == nil {
		return
	}
	scribbleCount++
	seen := map[protoreflect.Message]bool{}
	var walk func(msg protoreflect.Message, depth int)
	walk = func(msg protoreflect.Message, depth int) {
		if !msg.IsValid() || depth > 30 || seen[msg] {
			return
		}
		seen[msg] = true
		msg.Range(func(fd protoreflect.FieldDescriptor, v protoreflect.Value) bool {
			switch {
			case fd.IsMap():
				v.Map().Range(func(k protoreflect.MapKey, mv protoreflect.Value) bool {
					if fd.MapValue().Kind() == protoreflect.MessageKind {
						walk(mv.Message(), depth+1)
					}
					return true
				})
			case fd.IsList():
				l := v.List()
				for i := 0; i < l.Len(); i++ {
					switch fd.Kind() {
					case protoreflect.MessageKind:
						walk(l.Get(i).Message(), depth+1)
					case protoreflect.StringKind:
						l.Set(i, protoreflect.ValueOfString(scribbleText()))
					}
				}
			case fd.Kind() == protoreflect.MessageKind:
				walk(v.Message(), depth+1)
			case fd.Kind() == protoreflect.StringKind:
				msg.Set(fd, protoreflect.ValueOfString(scribbleText()))
			}
			return true
		})
	}
	walk(m.ProtoReflect(), 0)
}

func scribbleModel(m *openfgav1.AuthorizationModel) {
	if m == nil {
		return
	}
	scribbleProto(m)
	for _, td := range m.GetTypeDefinitions() {
		for k := range td.GetRelations() {
			delete(td.Relations, k)
			break
		}
	}
	for k := range m.GetConditions() {
		delete(m.Conditions, k)
		break
	}
	// structural edits too: new entries in every map the result carries (also
	// in empty ones - an empty map shared between results is only reachable
	// this way) and new elements at the end of its slices
	if m.Conditions != nil {
		m.Conditions[scribbleText()] = &openfgav1.Condition{Name: scribbleText(), Expression: "1 == 1"}
	}
	for _, td := range m.GetTypeDefinitions() {
		if td.Relations != nil {
			td.Relations[scribbleText()] = &openfgav1.Userset{Userset: &openfgav1.Userset_This{}}
		}
		if md := td.GetMetadata(); md != nil && md.Relations != nil {
			md.Relations[scribbleText()] = &openfgav1.RelationMetadata{}
		}
	}
	m.TypeDefinitions = append(m.TypeDefinitions, &openfgav1.TypeDefinition{Type: scribbleText()})
}

// scribbleWeighted writes into everything the read accessors of a finished
// weighted graph hand out.
func scribbleWeighted(g *graph.WeightedAuthorizationModelGraph) {
	if g == nil {
		return
	}
	for _, n := range g.GetNodes() {
		w := n.GetWeights()
		for k := range w {
			w[k] = -7
		}
		if w != nil {
			w["SCRIBBLED"] = 1
		}
		wc := n.GetWildcards()
		for i := range wc {
			wc[i] = "SCRIBBLED"
		}
	}
	for _, es := range g.GetEdges() {
		for _, e := range es {
			w := e.GetWeights()
			for k := range w {
				w[k] = -7
			}
			wc := e.GetWildcards()
			for i := range wc {
				wc[i] = "SCRIBBLED"
			}
			c := e.GetConditions()
			for i := range c {
				c[i] = "SCRIBBLED"
			}
		}
	}
}

func scribbleAttrs(a []encoding.Attribute) {
	scribbleCount++
	for i := range a {
		a[i].Key, a[i].Value = scribbleText(), scribbleText()
	}
}

// scribblePlain writes into the attribute slices a plain graph hands out.
func scribblePlain(g *graph.AuthorizationModelGraph) {
	if g == nil {
		return
	}
	scribbleAttrs(g.Attributes())
	nodes := g.Nodes()
	for nodes.Next() {
		if n, ok := nodes.Node().(*graph.AuthorizationModelNode); ok {
			scribbleAttrs(n.Attributes())
		}
	}
	edges := g.Edges()
	for edges.Next() {
		lines := g.Lines(edges.Edge().From().ID(), edges.Edge().To().ID())
		for lines.Next() {
			if e, ok := lines.Line().(*graph.AuthorizationModelEdge); ok {
				scribbleAttrs(e.Attributes())
			}
		}
	}
}
