package main

// The shared fixtures under tests/data are mixed in as seeds for mutation
// (DESIGN.md §6): real-world model shapes, loaded through protojson (trusted)
// and converted to plans by the harness's own walker.

import (
	"os"
	"path/filepath"
	"sort"

	openfgav1 "github.com/openfga/api/proto/openfga/v1"
	"google.golang.org/protobuf/encoding/protojson"
)

var fixtureRoot = "/repo"
var fixturePlans []*Model
var fixturesLoaded bool

func loadFixtures() []*Model {
	if fixturesLoaded {
		return fixturePlans
	}
	fixturesLoaded = true
	var files []string
	for _, pat := range []string{"tests/data/transformer/*/authorization-model.json", "tests/data/transformer-module/*/authorization-model.json"} {
		m, _ := filepath.Glob(filepath.Join(fixtureRoot, pat))
		files = append(files, m...)
	}
	sort.Strings(files)
	for _, f := range files {
		data, err := os.ReadFile(f)
		if err != nil {
			continue
		}
		pm := &openfgav1.AuthorizationModel{}
		if err := (protojson.UnmarshalOptions{DiscardUnknown: true}).Unmarshal(data, pm); err != nil {
			continue
		}
		plan, err := modelFromProto(pm)
		if err != nil || len(plan.Types) == 0 {
			continue
		}
		fixturePlans = append(fixturePlans, plan)
	}
	return fixturePlans
}

// fixtureModel picks a fixture and applies 0-2 mutations: drop, duplicate or
// redirect one reference.
func fixtureModel(r *rng, stripAttribution bool) *Model {
	fx := loadFixtures()
	if len(fx) == 0 {
		return nil
	}
	m := fx[r.intn(len(fx))].clone()
	if stripAttribution {
		for _, t := range m.Types {
			t.Module, t.File = "", ""
			for _, rel := range t.Relations {
				rel.Module, rel.File = "", ""
			}
		}
		for _, c := range m.Conds {
			c.Module, c.File = "", ""
		}
	}
	type slot struct {
		t *Type
		r *Relation
	}
	var slots []slot
	for _, t := range m.Types {
		for _, rel := range t.Relations {
			slots = append(slots, slot{t, rel})
		}
	}
	if len(slots) == 0 {
		return m
	}
	nmut := r.intn(3)
	for i := 0; i < nmut; i++ {
		s := slots[r.intn(len(slots))]
		switch r.intn(4) {
		case 0: // drop a restriction
			if len(s.r.Direct) > 1 {
				j := r.intn(len(s.r.Direct))
				s.r.Direct = append(s.r.Direct[:j], s.r.Direct[j+1:]...)
			}
		case 1: // duplicate a restriction (possibly as wildcard)
			if len(s.r.Direct) > 0 {
				d := s.r.Direct[r.intn(len(s.r.Direct))]
				if d.Rel == "" && r.chance(50) {
					d.Wild = !d.Wild
				}
				s.r.Direct = append(s.r.Direct, d)
			}
		case 2: // redirect a computed reference to another relation of the type
			var leaves []*Expr
			var walk func(e *Expr)
			walk = func(e *Expr) {
				if e == nil {
					return
				}
				if e.Kind == KComputed {
					leaves = append(leaves, e)
				}
				for _, c := range e.Children {
					walk(c)
				}
			}
			walk(s.r.Expr)
			if len(leaves) > 0 && len(s.t.Relations) > 0 {
				leaves[r.intn(len(leaves))].Rel = s.t.Relations[r.intn(len(s.t.Relations))].Name
			}
		case 3: // turn a type restriction into a userset restriction
			if len(s.r.Direct) > 0 {
				o := slots[r.intn(len(slots))]
				j := r.intn(len(s.r.Direct))
				s.r.Direct[j] = Ref{Type: o.t.Name, Rel: o.r.Name, Cond: s.r.Direct[j].Cond}
			}
		}
	}
	return m
}
