package main

// Module-set plans and their generator (DESIGN.md §6).

import (
	"fmt"
	"sort"
	"strings"
)

// PBlock is one `type` or `extend type` block of a file.
type PBlock struct {
	Extend bool  `json:"extend,omitempty"`
	Type   *Type `json:"type"`
}

// PFile is one module file of a plan.
type PFile struct {
	Name   string    `json:"name"`
	Kind   string    `json:"kind"` // module | nonmodule | syntaxerr
	Module string    `json:"module,omitempty"`
	Blocks []*PBlock `json:"blocks,omitempty"`
	Conds  []*Cond   `json:"conds,omitempty"`
	Raw    string    `json:"raw,omitempty"` // syntaxerr: literal contents
	// Layout: how the tokens of `extend type T` / `type T` / `define r:` are
	// separated and how lines are indented (everything the grammar allows where
	// it says WHITESPACE): "" = one space / canonical indentation.
	Layout string `json:"layout,omitempty"` // "" | wide | tabs | mixed
	// EOL: line terminator of the file: "" = \n, "crlf" = \r\n, "cr" = a lone \r
	// (the lexer accepts all three). Only for files without conditions: the
	// text of a condition expression is taken verbatim.
	EOL string `json:"eol,omitempty"`
	// DeliverAs: the file is handed to the merger under this name instead of
	// Name (two different files under one name; C12 only).
	DeliverAs string `json:"deliver_as,omitempty"`
	// LongLine: a comment line of that many bytes follows the header (sizes
	// beyond buffer defaults such as bufio.Scanner's 64 KiB token limit)
	LongLine int `json:"long_line,omitempty"`
}

func (f *PFile) sep(i int) string {
	switch f.Layout {
	case "wide":
		return "  "
	case "tabs":
		return "\t"
	case "mixed":
		return []string{" ", "   ", "\t", " \t "}[i%4]
	}
	return " "
}

// relayout rewrites the canonical rendering of a block line by line.
func (f *PFile) relayout(text string) string {
	if f.Layout == "" {
		return text
	}
	lines := strings.Split(text, "\n")
	for i, l := range lines {
		trim := strings.TrimLeft(l, " ")
		indent := l[:len(l)-len(trim)]
		if f.Layout != "wide" && indent != "" {
			indent = strings.Repeat("\t", len(indent)/2)
		}
		switch {
		case strings.HasPrefix(trim, "extend type "):
			trim = "extend" + f.sep(i) + "type" + f.sep(i+1) + strings.TrimPrefix(trim, "extend type ")
		case strings.HasPrefix(trim, "type "):
			trim = "type" + f.sep(i) + strings.TrimPrefix(trim, "type ")
		case strings.HasPrefix(trim, "define "):
			rest := strings.TrimPrefix(trim, "define ")
			if j := strings.Index(rest, ": "); j >= 0 {
				rest = rest[:j] + []string{":", " :", ": ", " :  "}[i%4] + strings.TrimLeft(rest[j+2:], " ")
			}
			trim = "define" + f.sep(i) + rest
		case strings.HasPrefix(trim, "condition "):
			trim = "condition" + f.sep(i) + strings.TrimPrefix(trim, "condition ")
		}
		lines[i] = indent + trim
	}
	return strings.Join(lines, "\n")
}

func (f *PFile) contents() string {
	if f.Kind == "syntaxerr" {
		return f.Raw
	}
	var sb strings.Builder
	if f.Kind == "nonmodule" {
		sb.WriteString("model\n  schema 1.1\n")
	} else {
		sb.WriteString("module " + f.Module + "\n")
	}
	if f.LongLine > 0 {
		sb.WriteString("# " + strings.Repeat("long comment ", f.LongLine/13+1) + "\n")
	}
	var body strings.Builder
	for _, b := range f.Blocks {
		body.WriteString("\n")
		b.Type.dsl(&body, b.Extend)
	}
	for _, c := range f.Conds {
		body.WriteString("\n")
		c.dsl(&body)
	}
	sb.WriteString(f.relayout(body.String()))
	out := sb.String()
	if len(f.Conds) == 0 && f.LongLine == 0 {
		switch f.EOL {
		case "crlf":
			out = strings.ReplaceAll(out, "\n", "\r\n")
		case "cr":
			out = strings.ReplaceAll(out, "\n", "\r")
		}
	}
	return out
}

func (f *PFile) deliveredName() string {
	if f.DeliverAs != "" {
		return f.DeliverAs
	}
	return f.Name
}

// Conflict is an injected conflict with the files that may legitimately be
// blamed for it (resolved against the delivery order by the reference).
type Conflict struct {
	Kind  string   `json:"kind"` // dup-type | dup-cond | extend-missing | rel-base-ext | rel-ext-ext | rel-twice-one-file | extend-twice-one-file | nonmodule | syntaxerr | file-twice
	Name  string   `json:"name,omitempty"`
	Rel   string   `json:"rel,omitempty"`
	Files []string `json:"files"` // files involved
}

type wlMerge struct {
	Variant   string     `json:"variant"` // base | perm | concurrent
	Files     []*PFile   `json:"files"`
	Order     []int      `json:"order"` // delivery: indexes into Files (permutation, possibly with a duplicate)
	Schema    string     `json:"schema"`
	Conflicts []Conflict `json:"injected,omitempty"`  // informational: what the generator injected; the oracle derives conflicts from the plan
	AltOrder  []int      `json:"alt_order,omitempty"` // perm variant: second delivery order
	Cold      bool       `json:"cold,omitempty"`      // cold restart of the parser caches before the call
	Warm      int        `json:"warm,omitempty"`      // unrelated parses before the call
	Tasks     int        `json:"tasks,omitempty"`     // concurrent variant
	// Scribble: the same list is merged once before, and the caller writes all
	// over the model (or the error list) it got back.
	Scribble bool `json:"scribble,omitempty"`
	// ReuseList: the same []ModuleFile value was merged before with other
	// contents, which the caller then replaced in place.
	ReuseList bool `json:"reuse_list,omitempty"`
}

var (
	// keyword free, but with every character class identifiers may contain
	// (_ - . /) and with names that are prefixes of each other
	safeRel   = []string{"a", "b", "c", "member", "viewer", "view", "owner", "editor", "ab", "org_viewer", "can-view", "can.view"}
	safeTS    = []string{"parent", "p", "container"}
	safeObj   = []string{"doc", "docs", "folder", "group", "org", "team", "wiki", "wiki/page", "org-unit"}
	safeTerm  = []string{"user", "employee", "users", "device"}
	modNames  = []string{"core", "wiki", "acl", "m2", "core-eu", "core_eu"}
	safeConds = []string{"c1", "c2", "cond"}
)

// genDSLModel generates a DSL expressible model with keyword-free names.
func genDSLModel(r *rng) *Model {
	for {
		k := drawKnobs(r)
		k.JSONOnly = false
		k.Invalid = false
		k.PRewriteBack = []int{0, 20}[r.intn(2)]
		if r.chance(50) && k.PCond == 0 {
			k.PCond = 40
		}
		if k.NObj < 2 {
			k.NObj = 2 + r.intn(3)
		}
		if r.chance(30) {
			// many public types in arbitrary order
			k.PWild = 80
			k.NTerm = 3 + r.intn(2)
			k.MaxDirect = 4
		}
		saved := [5][]string{termNames, objNames, relPool, tsNames, condNames}
		termNames, objNames, relPool, tsNames, condNames = safeTerm, safeObj, safeRel, safeTS, safeConds
		if k.NTerm > len(termNames) {
			k.NTerm = len(termNames)
		}
		inDSLGen = true
		m := genModel(r, k)
		inDSLGen = false
		termNames, objNames, relPool, tsNames, condNames = saved[0], saved[1], saved[2], saved[3], saved[4]
		// exact duplicate restrictions are legal DSL; keep them rare but present
		if m.dslExpressible() {
			return m
		}
	}
}

func genModuleSet(r *rng, wantConflicts int) *wlMerge {
	return genModuleSetOpt(r, wantConflicts, false)
}

// genModuleSetOpt with crowd: always many files, colliding names likely.
func genModuleSetOpt(r *rng, wantConflicts int, crowd bool) *wlMerge {
	m := genDSLModel(r)
	wl := &wlMerge{Variant: "base", Schema: []string{"1.2", "1.1", "1.2", "2.0-x", "1.2", "1.1", "1.2", ""}[r.intn(8)]}
	nmod := 1 + r.intn(4)
	many := r.chance(5) || crowd  // 8-16 files: beyond "a handful" thresholds
	huge := !crowd && r.chance(1) // 20-72 files: thresholds of 32 and 64 files
	if huge {
		many = true
	}
	if many {
		nmod = 4 + r.intn(3)
	}
	var files []*PFile
	for _, i := range r.perm(len(modNames))[:nmod] {
		nf := 1 + r.intn(2)
		if many {
			nf = 2 + r.intn(2)
		}
		if huge {
			nf = 5 + r.intn(8)
		}
		for j := 0; j < nf; j++ {
			name := modNames[i] + ".fga"
			if j > 0 || r.chance(30) {
				name = fmt.Sprintf("%s/%c.fga", modNames[i], 'a'+j)
			}
			if many && j > 0 && (r.chance(15) || crowd && r.chance(30)) {
				name = modNames[i] + ".fga" // base names collide: two files under one name
			}
			files = append(files, &PFile{Name: name, Kind: "module", Module: modNames[i], Layout: []string{"", "", "", "", "wide", "tabs", "mixed"}[r.intn(7)]})
		}
	}
	if len(files) > 6 && !many {
		files = files[:6]
	}
	pickFile := func(not *PFile) *PFile {
		for tries := 0; tries < 10; tries++ {
			f := files[r.intn(len(files))]
			if f != not {
				return f
			}
		}
		return nil
	}
	extendedIn := map[string]map[*PFile]bool{} // type -> files that already extend it
	for _, t := range m.Types {
		home := files[r.intn(len(files))]
		base := &Type{Name: t.Name}
		rels := append([]*Relation(nil), t.Relations...)
		var groups [][]*Relation
		if len(rels) > 0 && len(files) > 1 && r.chance(55) {
			ng := 1 + r.intn(3)
			moveAll := r.chance(25)
			for g := 0; g < ng && len(rels) > 0; g++ {
				n := 1 + r.intn(len(rels))
				if !moveAll && n == len(rels) && len(rels) > 1 {
					n--
				}
				if !moveAll && len(rels) == 1 {
					break
				}
				groups = append(groups, rels[:n])
				rels = rels[n:]
			}
		}
		base.Relations = rels
		home.Blocks = append(home.Blocks, &PBlock{Type: base})
		for _, g := range groups {
			var ef *PFile
			for tries := 0; tries < 10; tries++ {
				c := pickFile(home)
				if c != nil && !extendedIn[t.Name][c] {
					ef = c
					break
				}
			}
			if ef == nil {
				base.Relations = append(base.Relations, g...)
				continue
			}
			if extendedIn[t.Name] == nil {
				extendedIn[t.Name] = map[*PFile]bool{}
			}
			extendedIn[t.Name][ef] = true
			ef.Blocks = append(ef.Blocks, &PBlock{Extend: true, Type: &Type{Name: t.Name, Relations: g}})
		}
		if r.chance(5) && !extendedIn[t.Name][home] {
			// the file that defines the type extends it as well (legal: only the
			// `extend` block is an extension) - with one relation taken from the
			// definition, or with no relations at all
			if extendedIn[t.Name] == nil {
				extendedIn[t.Name] = map[*PFile]bool{}
			}
			extendedIn[t.Name][home] = true
			ext := &Type{Name: t.Name}
			if len(base.Relations) > 0 && r.chance(60) {
				ext.Relations = base.Relations[len(base.Relations)-1:]
				base.Relations = base.Relations[:len(base.Relations)-1]
			}
			home.Blocks = append(home.Blocks, &PBlock{Extend: true, Type: ext})
		}
	}
	for _, c := range m.Conds {
		f := files[r.intn(len(files))]
		f.Conds = append(f.Conds, c)
	}
	if r.chance(4) {
		// names whose joined forms spell the same string: type "team.eng" with
		// relation "lead" next to type "team" extended with relation "eng.lead"
		// (whatever keys a (type, relation) pair by a joined string must not
		// confuse the two) - a conflict-free set
		sep := []string{".", "/", "-", "_"}[r.intn(4)]
		a, q, z := "team", "eng", "lead"
		ab := a + sep + q
		if m.typeByName(a) == nil && m.typeByName(ab) == nil {
			fa, fab, fext := files[r.intn(len(files))], files[r.intn(len(files))], files[r.intn(len(files))]
			ta := &Type{Name: a}
			if r.chance(50) {
				ta.Relations = []*Relation{{Name: "owner", Expr: &Expr{Kind: KThis}, Direct: []Ref{{Type: a}}}}
			}
			fa.Blocks = append(fa.Blocks, &PBlock{Type: ta})
			fab.Blocks = append(fab.Blocks, &PBlock{Type: &Type{Name: ab, Relations: []*Relation{{Name: z, Expr: &Expr{Kind: KThis}, Direct: []Ref{{Type: a}}}}}})
			ext := &PBlock{Extend: true, Type: &Type{Name: a, Relations: []*Relation{{Name: q + sep + z, Expr: &Expr{Kind: KThis}, Direct: []Ref{{Type: a}}}}}}
			if r.chance(50) {
				// the mirror image: the joined type gets the short relation by extension
				fab.Blocks[len(fab.Blocks)-1].Type.Relations = nil
				ta.Relations = append(ta.Relations, &Relation{Name: q + sep + z, Expr: &Expr{Kind: KThis}, Direct: []Ref{{Type: a}}})
				ext = &PBlock{Extend: true, Type: &Type{Name: ab, Relations: []*Relation{{Name: z, Expr: &Expr{Kind: KThis}, Direct: []Ref{{Type: a}}}}}}
			}
			fext.Blocks = append(fext.Blocks, ext)
		}
	}
	if r.chance(1) {
		// very many types: the counts at which a list becomes a set, a scan an
		// index (999 ... 1025 definitions in all, spread over the files)
		want := []int{999, 1000, 1000, 1000, 1001, 1023, 1024, 1024, 1025}[r.intn(9)]
		have := 0
		for _, f := range files {
			for _, b := range f.Blocks {
				if !b.Extend {
					have++
				}
			}
		}
		for i := 0; have < want; i++ {
			f := files[r.intn(len(files))]
			f.Blocks = append(f.Blocks, &PBlock{Type: &Type{Name: fmt.Sprintf("bulk%04d", i)}})
			have++
		}
		if r.chance(70) && want > 0 {
			// ... and one of them defined a second time, as the last declaration of
			// some file: when that file is delivered last, the duplicate is met with
			// exactly `want` names known
			f := files[r.intn(len(files))]
			f.Blocks = append(f.Blocks, &PBlock{Type: &Type{Name: "bulk0000"}})
		}
	}
	if r.chance(8) && len(m.Types) > 0 {
		// types and conditions live in different namespaces: a condition may be
		// named like a type (of this file or of another one)
		t := m.Types[r.intn(len(m.Types))]
		taken := false
		for _, c := range m.Conds {
			if c.Name == t.Name {
				taken = true
			}
		}
		plain := len(t.Name) > 0 && len(t.Name) <= 50
		for _, ch := range t.Name { // the grammar's condition names are plain identifiers
			if !(ch >= 'a' && ch <= 'z' || ch >= 'A' && ch <= 'Z' || ch >= '0' && ch <= '9' || ch == '_') {
				plain = false
			}
		}
		switch t.Name { // words the grammar reserves where a condition name stands
		case "model", "schema", "module", "extend", "type", "relation", "relations", "define", "condition", "list", "map", "string", "int", "uint", "bool", "double", "duration", "timestamp", "ipaddress", "any", "and", "or", "from", "with":
			plain = false
		}
		if !taken && plain {
			f := files[r.intn(len(files))]
			f.Conds = append(f.Conds, &Cond{Name: t.Name, Params: []Param{{Name: "x", Type: "string"}}, Expr: "x == \"1\""})
		}
	}
	// a module file must declare something the grammar accepts; empty files
	// (header only) are legal modules and are kept.
	if r.chance(2) {
		files[r.intn(len(files))].LongLine = []int{5000, 70000, 140000, 140000, 1100000}[r.intn(5)]
	}
	wl.Files = files

	// --- conflicts
	typeHome := func(name string) *PFile {
		for _, f := range wl.Files {
			for _, b := range f.Blocks {
				if !b.Extend && b.Type.Name == name {
					return f
				}
			}
		}
		return nil
	}
	allTypes := func() []string {
		var out []string
		for _, f := range wl.Files {
			for _, b := range f.Blocks {
				if !b.Extend {
					out = append(out, b.Type.Name)
				}
			}
		}
		sort.Strings(out)
		return out
	}
	// several syntactically broken files at once (each standalone)
	extraBroken := 0
	if wantConflicts > 0 && r.chance(12) {
		extraBroken = 2 + r.intn(2)
	}
	for c := 0; c < wantConflicts+extraBroken; c++ {
		kind := r.intn(10)
		if c >= wantConflicts {
			kind = 8
		}
		switch kind {
		case 0: // duplicate type
			ts := allTypes()
			tn := ts[r.intn(len(ts))]
			home := typeHome(tn)
			f := pickFile(home)
			if f == nil || f.Kind != "module" {
				continue
			}
			f.Blocks = append(f.Blocks, &PBlock{Type: &Type{Name: tn}})
			wl.Conflicts = append(wl.Conflicts, Conflict{Kind: "dup-type", Name: tn, Files: []string{home.Name, f.Name}})
		case 1: // duplicate condition
			var owners []*PFile
			for _, f := range wl.Files {
				if len(f.Conds) > 0 {
					owners = append(owners, f)
				}
			}
			if len(owners) == 0 {
				continue
			}
			o := owners[r.intn(len(owners))]
			cd := o.Conds[r.intn(len(o.Conds))]
			f := pickFile(o)
			if f == nil || f.Kind != "module" {
				continue
			}
			dup := *cd
			f.Conds = append(f.Conds, &dup)
			wl.Conflicts = append(wl.Conflicts, Conflict{Kind: "dup-cond", Name: cd.Name, Files: []string{o.Name, f.Name}})
		case 2: // extension of a missing type
			f := files[r.intn(len(files))]
			if f.Kind != "module" || extendedIn["ghost"][f] {
				continue
			}
			if extendedIn["ghost"] == nil {
				extendedIn["ghost"] = map[*PFile]bool{}
			}
			extendedIn["ghost"][f] = true
			f.Blocks = append(f.Blocks, &PBlock{Extend: true, Type: &Type{Name: "ghost", Relations: []*Relation{{Name: "a", Expr: &Expr{Kind: KThis}, Direct: []Ref{{Type: "user"}}}}}})
			wl.Conflicts = append(wl.Conflicts, Conflict{Kind: "extend-missing", Name: "ghost", Files: []string{f.Name}})
		case 3, 4: // the same relation contributed twice: base + extension
			var cands []*PBlock
			var homes []*PFile
			for _, f := range wl.Files {
				for _, b := range f.Blocks {
					if !b.Extend && len(b.Type.Relations) > 0 {
						cands = append(cands, b)
						homes = append(homes, f)
					}
				}
			}
			if len(cands) == 0 {
				continue
			}
			i := r.intn(len(cands))
			b, home := cands[i], homes[i]
			rel := b.Type.Relations[r.intn(len(b.Type.Relations))]
			f := pickFile(home)
			if f == nil || f.Kind != "module" {
				continue
			}
			nr := &Relation{Name: rel.Name, Expr: &Expr{Kind: KThis}, Direct: []Ref{{Type: "user"}}}
			added := false
			for _, eb := range f.Blocks {
				if eb.Extend && eb.Type.Name == b.Type.Name {
					if eb.Type.rel(rel.Name) == nil {
						eb.Type.Relations = append(eb.Type.Relations, nr)
						added = true
					}
					break
				}
			}
			if !added {
				if extendedIn[b.Type.Name][f] {
					continue
				}
				if extendedIn[b.Type.Name] == nil {
					extendedIn[b.Type.Name] = map[*PFile]bool{}
				}
				extendedIn[b.Type.Name][f] = true
				f.Blocks = append(f.Blocks, &PBlock{Extend: true, Type: &Type{Name: b.Type.Name, Relations: []*Relation{nr}}})
			}
			wl.Conflicts = append(wl.Conflicts, Conflict{Kind: "rel-base-ext", Name: b.Type.Name, Rel: rel.Name, Files: []string{f.Name}})
		case 5, 6: // the same relation contributed by two extensions in two files
			ts := allTypes()
			tn := ts[r.intn(len(ts))]
			home := typeHome(tn)
			f1, f2 := pickFile(home), pickFile(home)
			if f1 == nil || f2 == nil || f1 == f2 || f1.Kind != "module" || f2.Kind != "module" {
				continue
			}
			baseT := (*Type)(nil)
			for _, b := range home.Blocks {
				if !b.Extend && b.Type.Name == tn {
					baseT = b.Type
				}
			}
			rn := "zz"
			if baseT.rel(rn) != nil {
				continue
			}
			ok := true
			for _, f := range []*PFile{f1, f2} {
				nr := &Relation{Name: rn, Expr: &Expr{Kind: KThis}, Direct: []Ref{{Type: "user"}}}
				placed := false
				for _, eb := range f.Blocks {
					if eb.Extend && eb.Type.Name == tn {
						if eb.Type.rel(rn) != nil {
							ok = false
						} else {
							eb.Type.Relations = append(eb.Type.Relations, nr)
						}
						placed = true
						break
					}
				}
				if !placed {
					if extendedIn[tn] == nil {
						extendedIn[tn] = map[*PFile]bool{}
					}
					extendedIn[tn][f] = true
					f.Blocks = append(f.Blocks, &PBlock{Extend: true, Type: &Type{Name: tn, Relations: []*Relation{nr}}})
				}
			}
			if ok {
				wl.Conflicts = append(wl.Conflicts, Conflict{Kind: "rel-ext-ext", Name: tn, Rel: rn, Files: []string{f1.Name, f2.Name}})
			}
		case 7: // a non-module file
			nf := &PFile{Name: fmt.Sprintf("plain%d.fga", c), Kind: "nonmodule"}
			shape := r.intn(3)
			tname := fmt.Sprintf("solo%d", c)
			switch shape {
			case 0:
				nf.Blocks = append(nf.Blocks, &PBlock{Type: &Type{Name: tname}})
			case 1:
				nf.Blocks = append(nf.Blocks, &PBlock{Type: &Type{Name: tname, Relations: []*Relation{{Name: "a", Expr: &Expr{Kind: KThis}, Direct: []Ref{{Type: "user"}}}}}})
			case 2:
				nf.Blocks = append(nf.Blocks, &PBlock{Type: &Type{Name: tname, Relations: []*Relation{{Name: "a", Expr: &Expr{Kind: KThis}, Direct: []Ref{{Type: "user"}}}}}})
				nf.Conds = append(nf.Conds, &Cond{Name: fmt.Sprintf("solocond%d", c), Params: []Param{{Name: "x", Type: "string"}}, Expr: "x == \"1\""})
			}
			wl.Files = append(wl.Files, nf)
			files = wl.Files
			wl.Conflicts = append(wl.Conflicts, Conflict{Kind: "nonmodule", Files: []string{nf.Name}})
		case 8: // a file with a syntax error (standalone: nothing depends on it)
			raws := []string{
				"module broken\n\ntype lone%d\n  relations\n    define a: [user] or\n",
				"module broken\n\ntype lone%d\n  relations\n    define a: [user\n",
				"module broken\n\ntype lone%d\n  relations\n    define a: b or c and d\n",
				"module broken\n\ntype lone%d\n  relations\n    define a: [user]\n    define a: [user]\n",
				"module broken\n\ntype lone%d\n\nextend type lone%d\n  relations\n    define a: [user]\n\nextend type lone%d\n  relations\n    define b: [user]\n",
				"modul broken\n\ntype lone%d\n",
				// several types each extended more than once in one file: several errors from one file
				"module broken\n\ntype lone%d\n\ntype other%d\n\ntype third%d\n\nextend type third%d\n  relations\n    define a: [user]\n\nextend type lone%d\n  relations\n    define a: [user]\n\nextend type other%d\n  relations\n    define a: [user]\n\nextend type other%d\n  relations\n    define b: [user]\n\nextend type lone%d\n  relations\n    define b: [user]\n\nextend type third%d\n  relations\n    define b: [user]\n",
				"module broken\n\ntype lone%d\n\ntype other%d\n\nextend type other%d\n  relations\n    define a: [user]\n\nextend type lone%d\n  relations\n    define a: [user]\n\nextend type lone%d\n  relations\n    define b: [user]\n\nextend type other%d\n  relations\n    define b: [user]\n\nextend type other%d\n  relations\n    define c: [user]\n",
				// characters outside the alphabet of the language, placed where the
				// text without them would be valid
				"module broken\n\ntype lone%d$\n",
				"module broken\n\ntype lone%d\n  relations\n    define a: [user];\n",
				"module broken\u00a7\n\ntype lone%d\n",
				"module broken\n\ntype lone%d\n  relations\n    define a: [user] ~\n",
				"module broken\n\ntype lone%d\n  relations\n    define a: [user]\n^\n",
				"module broken\n\ntype lone%d\n  relations\n    define a: [user] | \n",
				"module broken\n\ntype lone%d @\n  relations\n    define a: [user]\n",
				// a byte order mark in front of an otherwise valid module
				"\ufeffmodule broken\n\ntype lone%d\n",
				"\ufeffmodule broken\n\ntype lone%d\n  relations\n    define a: [user]\n",
				"\ufeffmodule broken\n\ntype lone%d\n\ntype other%d\n",
				"\ufeff\nmodule broken\n\ntype lone%d\n",
			}
			raw := raws[r.intn(len(raws))]
			raw = strings.ReplaceAll(raw, "%d", fmt.Sprint(c))
			nf := &PFile{Name: fmt.Sprintf("broken%d.fga", c), Kind: "syntaxerr", Raw: raw}
			wl.Files = append(wl.Files, nf)
			files = wl.Files
			wl.Conflicts = append(wl.Conflicts, Conflict{Kind: "syntaxerr", Files: []string{nf.Name}})
		case 9: // delivered twice: decided below (needs the order)
			wl.Conflicts = append(wl.Conflicts, Conflict{Kind: "file-twice"})
		}
	}
	// line terminators
	for _, f := range wl.Files {
		if f.Kind == "module" && r.chance(6) {
			f.EOL = []string{"crlf", "cr"}[r.intn(2)]
		}
	}
	// spellings of file names: the merger receives names, not paths - "./core.fga",
	// "wiki//a.fga" and "wiki\\a.fga" are names like any other, and two entries
	// whose names merely normalise to the same path are two files
	respell := func(n string) string {
		switch r.intn(4) {
		case 0:
			return "./" + n
		case 1:
			if strings.Contains(n, "/") {
				return strings.Replace(n, "/", "//", 1)
			}
			return "./" + n
		case 2:
			if strings.Contains(n, "/") {
				return strings.ReplaceAll(n, "/", "\\")
			}
			return ".\\" + n
		}
		return "x/../" + n
	}
	if r.chance(6) {
		if f := wl.Files[r.intn(len(wl.Files))]; f.DeliverAs == "" {
			f.DeliverAs = respell(f.Name)
		}
	}
	if r.chance(5) {
		// the same contents under a second spelling of the name: a second file,
		// whose declarations clash with the first one's wherever it stands in the list
		var cands []*PFile
		for _, f := range wl.Files {
			if f.Kind == "module" && (len(f.Conds) > 0 || len(f.Blocks) > 0) {
				cands = append(cands, f)
			}
		}
		if len(cands) > 0 {
			f := cands[r.intn(len(cands))]
			nf := *f
			nf.Name = f.Name + "~respelled"
			nf.DeliverAs = respell(f.deliveredName())
			wl.Files = append(wl.Files, &nf)
		}
	}
	// delivery order
	wl.Order = r.perm(len(wl.Files))
	kept := wl.Conflicts[:0]
	for _, c := range wl.Conflicts {
		if c.Kind != "file-twice" {
			kept = append(kept, c)
			continue
		}
		// duplicate a module file that declares at least one type or condition
		var cands []int
		for i, f := range wl.Files {
			if f.Kind != "module" {
				continue
			}
			declares := len(f.Conds) > 0
			for _, b := range f.Blocks {
				if !b.Extend || len(b.Type.Relations) > 0 {
					declares = true
				}
			}
			if declares {
				cands = append(cands, i)
			}
		}
		if len(cands) == 0 {
			continue
		}
		i := cands[r.intn(len(cands))]
		pos := r.intn(len(wl.Order) + 1)
		wl.Order = append(wl.Order[:pos], append([]int{i}, wl.Order[pos:]...)...)
		c.Files = []string{wl.Files[i].Name}
		kept = append(kept, c)
	}
	wl.Conflicts = kept
	return wl
}

func (wl *wlMerge) describe() string {
	var sb strings.Builder
	for _, i := range wl.Order {
		f := wl.Files[i]
		sb.WriteString("--- " + f.Name + " (" + f.Kind + ")\n" + f.contents())
	}
	if cs := deriveConflicts(wl, wl.Order); len(cs) > 0 {
		sb.WriteString(fmt.Sprintf("conflicts: %+v\n", cs))
	}
	return sb.String()
}
