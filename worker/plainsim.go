package main

// plainsim: the gonum backed plain authorization-model graph (C17).

import (
	"encoding/json"
	"fmt"
	"reflect"
	"sort"
	"strconv"
	"strings"

	openfgav1 "github.com/openfga/api/proto/openfga/v1"
	"github.com/openfga/language/pkg/go/graph"
	gonumgraph "gonum.org/v1/gonum/graph"
	"gonum.org/v1/gonum/graph/multi"
	"google.golang.org/protobuf/proto"

	"verifsim/simrt"
)

type wlPlain struct {
	Model *Model `json:"model"`
	// ScribbleFirst: before anything else a graph of this other model is built
	// and everything its accessors hand out is overwritten.
	ScribbleFirst *Model `json:"scribble_first,omitempty"`
	// ReuseObject: the graph of ScribbleFirst is built from a model object that
	// the caller then overwrites in place with the model under test.
	ReuseObject bool `json:"reuse_object,omitempty"`
}

// ---------------------------------------------------------------------------
// reference plain graph (DESIGN.md §7.7): edges drawn from user types
// towards relations.

type pedge struct {
	from, to string
	kind     ekind
	tupleset string
}

func (e pedge) key() string {
	return fmt.Sprintf("%s -> %s kind=%s ts=%s", e.from, e.to, e.kind, e.tupleset)
}

type pgraph struct {
	nodes map[string]rkind  // name -> kind
	label map[string]string // name -> label
	edges []pedge
	adj   map[string][]string
}

func buildPlainRef(m *Model) *pgraph {
	g := &pgraph{nodes: map[string]rkind{}, label: map[string]string{}, adj: map[string][]string{}}
	node := func(name string, k rkind, label string) {
		if _, ok := g.nodes[name]; !ok {
			g.nodes[name] = k
			g.label[name] = label
		}
	}
	hasRel := func(tn, rn string) bool {
		for _, t := range m.Types {
			if t.Name == tn && t.rel(rn) != nil {
				return true
			}
		}
		return false
	}
	has := func(e pedge) bool {
		for _, x := range g.edges {
			if x == e {
				return true
			}
		}
		return false
	}
	types := append([]*Type(nil), m.Types...)
	sort.SliceStable(types, func(i, j int) bool { return types[i].Name < types[j].Name })
	for _, t := range types {
		node(t.Name, rkType, t.Name)
		rels := append([]*Relation(nil), t.Relations...)
		sort.SliceStable(rels, func(i, j int) bool { return rels[i].Name < rels[j].Name })
		for _, r := range rels {
			rn := t.Name + "#" + r.Name
			node(rn, rkRel, rn)
			opCount := map[string]int{}
			var walk func(parent string, parentKind rkind, e *Expr)
			walk = func(parent string, parentKind rkind, e *Expr) {
				switch e.Kind {
				case KThis:
					for _, d := range r.Direct {
						var from string
						switch {
						case d.Wild:
							from = d.Type + ":*"
							node(from, rkWild, from)
						case d.Rel != "":
							from = d.Type + "#" + d.Rel
							node(from, rkRel, from)
						default:
							from = d.Type
							node(from, rkType, from)
						}
						pe := pedge{from, parent, ekDirect, ""}
						if !has(pe) {
							g.edges = append(g.edges, pe)
						}
					}
				case KComputed:
					from := t.Name + "#" + e.Rel
					node(from, rkRel, from)
					k := ekRewrite
					if parentKind == rkRel {
						k = ekComputed
					}
					g.edges = append(g.edges, pedge{from, parent, k, ""})
				case KTTU:
					ts := t.rel(e.Tupleset)
					if ts == nil {
						return
					}
					for _, d := range ts.Direct {
						if !hasRel(d.Type, e.Rel) {
							continue
						}
						from := d.Type + "#" + e.Rel
						node(from, rkRel, from)
						pe := pedge{from, parent, ekTTU, t.Name + "#" + e.Tupleset}
						if !has(pe) {
							g.edges = append(g.edges, pe)
						}
					}
				default:
					k := opCount[parent]
					opCount[parent] = k + 1
					op := fmt.Sprintf("%s/%d", parent, k)
					node(op, rkOp, e.Kind)
					g.edges = append(g.edges, pedge{op, parent, ekRewrite, ""})
					for _, c := range e.Children {
						walk(op, rkOp, c)
					}
				}
			}
			walk(rn, rkRel, r.Expr)
		}
	}
	for _, e := range g.edges {
		g.adj[e.from] = append(g.adj[e.from], e.to)
	}
	return g
}

// manyCycles reports whether the graph has more than limit elementary cycles
// (bounded enumeration: the library's GetCycles enumerates them all, which is
// exponential in their number - C08's subject, not C17's).
func (g *pgraph) manyCycles(limit int) bool {
	names := make([]string, 0, len(g.nodes))
	for n := range g.nodes {
		names = append(names, n)
	}
	sort.Strings(names)
	idx := map[string]int{}
	for i, n := range names {
		idx[n] = i
	}
	count := 0
	steps := 0
	var dfs func(start, v int, on []bool) bool
	dfs = func(start, v int, on []bool) bool {
		on[v] = true
		for _, y := range g.adj[names[v]] {
			steps++
			if steps > 200*limit {
				return true
			}
			w := idx[y]
			if w == start {
				count++
				if count > limit {
					return true
				}
			} else if w > start && !on[w] {
				if dfs(start, w, on) {
					return true
				}
			}
		}
		on[v] = false
		return false
	}
	for s := range names {
		if dfs(s, s, make([]bool, len(names))) {
			return true
		}
	}
	return false
}

func (g *pgraph) reach(from string) map[string]bool {
	seen := map[string]bool{from: true}
	stack := []string{from}
	for len(stack) > 0 {
		x := stack[len(stack)-1]
		stack = stack[:len(stack)-1]
		for _, y := range g.adj[x] {
			if !seen[y] {
				seen[y] = true
				stack = append(stack, y)
			}
		}
	}
	return seen
}

// cycle classification per the statement: computedCycle = two or more
// relations forming a cycle of pure computed usersets; acyclic = no directed
// cycle at all (self loops included).
func (g *pgraph) cycles() (computedCycle, acyclic bool) {
	acyclic = true
	color := map[string]int{}
	var dfs func(n string) bool
	dfs = func(n string) bool {
		color[n] = 1
		for _, y := range g.adj[n] {
			if color[y] == 1 {
				return true
			}
			if color[y] == 0 && dfs(y) {
				return true
			}
		}
		color[n] = 2
		return false
	}
	for n := range g.nodes {
		if color[n] == 0 && dfs(n) {
			acyclic = false
			break
		}
	}
	cadj := map[string][]string{}
	for _, e := range g.edges {
		if e.kind == ekComputed && e.from != e.to {
			cadj[e.from] = append(cadj[e.from], e.to)
		}
	}
	for n := range cadj {
		seen := map[string]bool{}
		stack := append([]string(nil), cadj[n]...)
		for len(stack) > 0 {
			x := stack[len(stack)-1]
			stack = stack[:len(stack)-1]
			if x == n {
				computedCycle = true
				break
			}
			if seen[x] {
				continue
			}
			seen[x] = true
			stack = append(stack, cadj[x]...)
		}
	}
	return
}

// ---------------------------------------------------------------------------
// observation of the built graph through its public API

type plainObs struct {
	err      string
	panicMsg string
	dot      string
	revDot   string
	rev2Dot  string
	names    map[int64]string // node id -> positional name
	kinds    map[string]rkind
	labels   map[string]string
	edges    []string // sorted edge keys (positional names)
	revOK    string   // "" or description of the first Reversed() problem
	paths    map[string]bool
	pathDual string
	lookup   string
	cycles   string
	revCyc   string // GetCycles() of the reversed graph
	rev2Cyc  string // ... of the graph reversed twice
	mutated  bool
}

func lineKey(from, to string, e *graph.AuthorizationModelEdge) string {
	return fmt.Sprintf("%s -> %s kind=%s ts=%s", from, to, ekMap[e.EdgeType()], e.TuplesetRelation())
}

func observePlain(pm *openfgav1.AuthorizationModel, labels []string, withCycles bool) (o plainObs) {
	before := proto.Clone(pm)
	defer func() {
		if r := recover(); r != nil {
			if simrt.IsAbort(r) {
				panic(r)
			}
			o.panicMsg = fmt.Sprint(r)
		}
		if !proto.Equal(before, pm) {
			o.mutated = true
		}
	}()
	g, err := graph.NewAuthorizationModelGraph(pm)
	if err != nil {
		o.err = err.Error()
		return
	}
	o.dot = g.GetDOT()
	o.names, o.kinds, o.labels = map[int64]string{}, map[string]rkind{}, map[string]string{}
	type rawLine struct {
		from, to int64
		id       int64
		e        *graph.AuthorizationModelEdge
	}
	collect := func(gr *graph.AuthorizationModelGraph) ([]rawLine, string) {
		var lines []rawLine
		it := gr.Edges()
		for it.Next() {
			me, ok := it.Edge().(multi.Edge)
			if !ok {
				return nil, "edge is not a multi.Edge"
			}
			for me.Lines.Next() {
				l := me.Lines.Line()
				ae, ok := l.(*graph.AuthorizationModelEdge)
				if !ok {
					return nil, "line is not an AuthorizationModelEdge"
				}
				lines = append(lines, rawLine{l.From().ID(), l.To().ID(), l.ID(), ae})
			}
		}
		sort.Slice(lines, func(i, j int) bool {
			if lines[i].from != lines[j].from {
				return lines[i].from < lines[j].from
			}
			if lines[i].to != lines[j].to {
				return lines[i].to < lines[j].to
			}
			return lines[i].id < lines[j].id
		})
		return lines, ""
	}
	lines, msg := collect(g)
	if msg != "" {
		o.err = msg
		return
	}
	// positional names: non operator nodes by label; operator nodes by their
	// parent (the node their first created line points to) and creation rank
	nodeByID := map[int64]*graph.AuthorizationModelNode{}
	nit := g.Nodes()
	for nit.Next() {
		n, ok := nit.Node().(*graph.AuthorizationModelNode)
		if !ok {
			o.err = "node is not an AuthorizationModelNode"
			return
		}
		nodeByID[n.ID()] = n
		if n.NodeType() != graph.OperatorNode {
			o.names[n.ID()] = n.Label()
		}
	}
	// operator nodes: node ids are handed out in creation order, and an
	// operator node has exactly one outgoing line (to its parent)
	opCount := map[int64]int{}
	var opIDs []int64
	for id, n := range nodeByID {
		if n.NodeType() == graph.OperatorNode {
			opIDs = append(opIDs, id)
		}
	}
	sort.Slice(opIDs, func(i, j int) bool { return opIDs[i] < opIDs[j] })
	parentOf := map[int64]int64{}
	outCount := map[int64]int{}
	for _, l := range lines {
		if n := nodeByID[l.from]; n != nil && n.NodeType() == graph.OperatorNode {
			parentOf[l.from] = l.to
			outCount[l.from]++
		}
	}
	for _, id := range opIDs {
		if outCount[id] != 1 {
			continue // left unnamed: reported as unexpected node
		}
		pn, ok := o.names[parentOf[id]]
		if !ok {
			continue
		}
		o.names[id] = fmt.Sprintf("%s/%d", pn, opCount[parentOf[id]])
		opCount[parentOf[id]]++
	}
	for id, n := range nodeByID {
		name, ok := o.names[id]
		if !ok {
			name = fmt.Sprintf("unnamed-%d", id)
			o.names[id] = name
		}
		o.kinds[name] = nkMap[n.NodeType()]
		o.labels[name] = n.Label()
	}
	for _, l := range lines {
		o.edges = append(o.edges, lineKey(o.names[l.from], o.names[l.to], l.e))
	}
	sort.Strings(o.edges)

	// the order of calls on one graph object is the caller's business: for every
	// other model the cycles are asked for before the graph is reversed (whatever
	// GetCycles leaves behind on the object must not leak into its reversal)
	cyclesFirst := withCycles && g.Nodes().Len() <= 40 && len(o.dot)%2 == 0
	if cyclesFirst {
		o.cycles = cycleFlags(g.GetCycles())
	}
	// Reversed
	rev, err := g.Reversed()
	if err != nil {
		o.revOK = "Reversed failed: " + err.Error()
		return
	}
	o.revDot = rev.GetDOT()
	// reversing is a read: the original's lines keep their end points, and a
	// second reversal of the same object - before anything else happens to it
	// or to the first reversal - gives the same reversed graph
	if lines2, msg := collect(g); msg == "" {
		var a, b []string
		for _, l := range lines {
			a = append(a, lineKey(o.names[l.from], o.names[l.to], l.e)+fmt.Sprint(" ", l.e.From().ID(), ">", l.e.To().ID()))
		}
		for _, l := range lines2 {
			b = append(b, lineKey(o.names[l.from], o.names[l.to], l.e)+fmt.Sprint(" ", l.e.From().ID(), ">", l.e.To().ID()))
		}
		sort.Strings(a)
		sort.Strings(b)
		if strings.Join(a, "\n") != strings.Join(b, "\n") {
			o.revOK = "the lines of the original graph changed when it was reversed"
		}
		for _, l := range lines2 {
			if l.e.From().ID() != l.from || l.e.To().ID() != l.to {
				o.revOK = "after Reversed() a line of the original graph reports other end points than the ones it is stored under"
			}
		}
	}
	if again, err := g.Reversed(); err != nil || again.GetDOT() != o.revDot {
		o.revOK = "reversing the same graph a second time, right after the first, gives a different DOT"
	}
	if rev.GetDrawingDirection() == g.GetDrawingDirection() {
		o.revOK = "drawing direction not flipped"
	}
	rlines, msg := collect(rev)
	if msg != "" {
		o.revOK = msg
	} else {
		var a, b []string
		for _, l := range lines {
			a = append(a, lineKey(o.names[l.to], o.names[l.from], l.e))
		}
		for _, l := range rlines {
			b = append(b, lineKey(o.names[l.from], o.names[l.to], l.e))
		}
		sort.Strings(a)
		sort.Strings(b)
		if strings.Join(a, "\n") != strings.Join(b, "\n") {
			o.revOK = "reversed graph is not the original with every edge flipped"
		}
		if rev.Nodes().Len() != g.Nodes().Len() {
			o.revOK = "reversed graph has a different node set"
		}
	}
	rev2, err := rev.Reversed()
	if err != nil {
		o.revOK = "Reversed().Reversed() failed: " + err.Error()
		return
	}
	o.rev2Dot = rev2.GetDOT()
	if after := g.GetDOT(); after != o.dot {
		o.revOK = "the original graph's DOT changed after it was reversed: " + firstLineDiff(o.dot, after)
	}
	// a second reversal of the same graph must give the same reversed graph
	if again, err := g.Reversed(); err != nil || again.GetDOT() != o.revDot {
		o.revOK = "reversing the same graph a second time gives a different DOT"
	}
	if rev2.GetDrawingDirection() != g.GetDrawingDirection() {
		o.revOK = "drawing direction not restored by reversing twice"
	}

	// label lookup and path queries over the given labels
	o.paths = map[string]bool{}
	var lk []string
	for _, a := range labels {
		n, err := g.GetNodeByLabel(a)
		rn, rerr := rev.GetNodeByLabel(a)
		switch {
		case err != nil:
			lk = append(lk, a+"=notfound")
		default:
			lk = append(lk, fmt.Sprintf("%s=%d:%s", a, nkMap[n.NodeType()], n.Label()))
		}
		if (err == nil) != (rerr == nil) || (err == nil && rn.ID() != n.ID()) {
			o.revOK = "label lookup differs between graph and reversed graph for " + a
		}
	}
	o.lookup = strings.Join(lk, " ")
	for _, a := range labels {
		for _, b := range labels {
			p, err := g.PathExists(a, b)
			q, rerr := rev.PathExists(b, a)
			if err == nil {
				o.paths[a+" => "+b] = p
			}
			if (err == nil) != (rerr == nil) || p != q {
				if o.pathDual == "" {
					o.pathDual = fmt.Sprintf("PathExists(%s,%s)=%v,%v on the graph but PathExists(%s,%s)=%v,%v on the reversed graph", a, b, p, err, b, a, q, rerr)
				}
			}
		}
	}
	// cycle enumeration is exponential in the number of cycles (C08's subject,
	// not C17's): only on graphs of moderate size
	if withCycles && g.Nodes().Len() <= 40 {
		if !cyclesFirst {
			o.cycles = cycleFlags(g.GetCycles())
		}
		o.revCyc = cycleFlags(rev.GetCycles())
		o.rev2Cyc = cycleFlags(rev2.GetCycles())
		if again := cycleFlags(g.GetCycles()); again != o.cycles {
			o.revOK = "GetCycles() on the same graph answers differently the second time: " + o.cycles + " then " + again
		}
	}
	// the graphs are the caller's: pruning one of them (gonum's mutation API is
	// promoted through the embedded graph) is nobody else's business - the
	// graph it was derived from and its sibling keep answering as before
	{
		before := map[string]bool{}
		for _, a := range labels {
			_, e1 := g.GetNodeByLabel(a)
			_, e2 := rev.GetNodeByLabel(a)
			before[a] = e1 == nil
			before["rev:"+a] = e2 == nil
		}
		it := rev2.Nodes()
		var ids []int64
		for it.Next() {
			ids = append(ids, it.Node().ID())
		}
		sort.Slice(ids, func(i, j int) bool { return ids[i] < ids[j] })
		for i, id := range ids {
			if i%2 == 0 {
				rev2.RemoveNode(id)
			}
		}
		for _, a := range labels {
			_, e1 := g.GetNodeByLabel(a)
			_, e2 := rev.GetNodeByLabel(a)
			if before[a] != (e1 == nil) || before["rev:"+a] != (e2 == nil) {
				o.revOK = "removing nodes from the twice reversed graph changed what label lookup answers on the graph or its reversal (" + a + ")"
			}
		}
		if after := g.GetDOT(); after != o.dot {
			o.revOK = "removing nodes from the twice reversed graph changed the DOT of the graph"
		}
	}
	return o
}

var _ gonumgraph.Node

// cycleFlags reads the two flags of CycleInformation by field name through
// reflection (they are unexported and have no accessor): "{compile runtime}",
// or "" when the struct no longer has two recognisable bool fields (then the
// cycle clauses cannot be observed and are skipped rather than guessed).
func cycleFlags(ci any) string {
	v := reflect.ValueOf(ci)
	if v.Kind() != reflect.Struct {
		return ""
	}
	var compile, runtime *bool
	for i := 0; i < v.NumField(); i++ {
		f := v.Type().Field(i)
		if v.Field(i).Kind() != reflect.Bool {
			continue
		}
		b := v.Field(i).Bool()
		n := strings.ToLower(f.Name)
		switch {
		case strings.Contains(n, "compile"):
			compile = &b
		case strings.Contains(n, "runtime"):
			runtime = &b
		}
	}
	if compile == nil || runtime == nil {
		return ""
	}
	return "{" + strconv.FormatBool(*compile) + " " + strconv.FormatBool(*runtime) + "}"
}

// ---------------------------------------------------------------------------

type plainCtx struct {
	withCycles bool // the graph has few enough cycles for GetCycles to be affordable
	cc, acyc   bool // reference cycle classification (computed once)
	reachOf    map[string]map[string]bool
	wl         *wlPlain
	pm         *openfgav1.AuthorizationModel
	ref        *pgraph
	labels     []string
	canon      *plainObs
}

func newPlainCtx(wl *wlPlain) *plainCtx {
	c := &plainCtx{wl: wl, pm: wl.Model.toProto(), ref: buildPlainRef(wl.Model)}
	for n, k := range c.ref.nodes {
		if k != rkOp {
			c.labels = append(c.labels, n)
		}
	}
	sort.Strings(c.labels)
	if len(c.labels) > 12 {
		// bound the all-pairs queries; keep a deterministic spread
		step := float64(len(c.labels)) / 12
		var sel []string
		for i := 0; i < 12; i++ {
			sel = append(sel, c.labels[int(float64(i)*step)])
		}
		c.labels = sel
	}
	c.labels = append(c.labels, "nosuch", "union", "user:*x")
	if len(c.labels) > 3 {
		// other spellings of an existing label are not that label: quoted as in
		// the DOT text, back-quoted, with an escape sequence, padded, case-folded
		l := c.labels[0]
		c.labels = append(c.labels, strconv.Quote(l), "`"+l+"`", " "+l, l+" ", strings.ToUpper(l[:1])+l[1:])
	}
	c.withCycles = !c.ref.manyCycles(300)
	c.cc, c.acyc = c.ref.cycles()
	c.reachOf = map[string]map[string]bool{}
	for _, a := range c.labels {
		if _, ok := c.ref.nodes[a]; ok {
			c.reachOf[a] = c.ref.reach(a)
		}
	}
	o := observePlain(c.pm, c.labels, c.withCycles)
	c.canon = &o
	return c
}

// callOrderPass builds a fresh graph of the model and calls its accessors in an
// order drawn from the tape (the order of calls on an object is a history like
// any other): whatever was called before, every answer must be the one a fresh
// graph gives in the canonical order.
func (c *plainCtx) callOrderPass(pm *openfgav1.AuthorizationModel) (msg string) {
	defer func() {
		if r := recover(); r != nil {
			if simrt.IsAbort(r) {
				panic(r)
			}
			msg = "panic: " + fmt.Sprint(r)
		}
	}()
	g, err := graph.NewAuthorizationModelGraph(proto.Clone(pm).(*openfgav1.AuthorizationModel))
	if err != nil {
		return ""
	}
	ops := []string{"dot", "rev", "cycles", "revcycles", "path", "lookup", "rev2", "rev-again", "dot"}
	for i := len(ops) - 1; i >= 1; i-- {
		j := i - int(simrt.Draw(uint32(i+1)))
		ops[i], ops[j] = ops[j], ops[i]
	}
	simrt.CountFault("history.call_order")
	small := c.withCycles && g.Nodes().Len() <= 40
	var rev *graph.AuthorizationModelGraph
	needRev := func() bool {
		if rev == nil {
			rev, err = g.Reversed()
		}
		return err == nil && rev != nil
	}
	var done []string
	bad := func(op, got, want string) string {
		return fmt.Sprintf("after the calls %v on one graph object, %s answers %s; a fresh graph answers %s", done, op, shorten(got), shorten(want))
	}
	for _, op := range ops {
		switch op {
		case "dot":
			if got := g.GetDOT(); got != c.canon.dot {
				return bad("GetDOT", got, c.canon.dot)
			}
		case "rev":
			if needRev() {
				if got := rev.GetDOT(); got != c.canon.revDot {
					return bad("Reversed().GetDOT", got, c.canon.revDot)
				}
			}
		case "rev-again":
			if r2, err := g.Reversed(); err == nil {
				if got := r2.GetDOT(); got != c.canon.revDot {
					return bad("another Reversed().GetDOT", got, c.canon.revDot)
				}
			}
		case "rev2":
			if needRev() {
				if r2, err := rev.Reversed(); err == nil {
					if got := r2.GetDOT(); got != c.canon.rev2Dot {
						return bad("Reversed().Reversed().GetDOT", got, c.canon.rev2Dot)
					}
				}
			}
		case "cycles":
			if small && c.canon.cycles != "" {
				if got := cycleFlags(g.GetCycles()); got != c.canon.cycles {
					return bad("GetCycles", got, c.canon.cycles)
				}
			}
		case "revcycles":
			if small && c.canon.revCyc != "" && needRev() {
				if got := cycleFlags(rev.GetCycles()); got != c.canon.revCyc {
					return bad("Reversed().GetCycles", got, c.canon.revCyc)
				}
			}
		case "path":
			n := 0
			for _, a := range c.labels {
				for _, b := range c.labels {
					want, known := c.canon.paths[a+" => "+b]
					if !known || n >= 12 {
						continue
					}
					n++
					if got, err := g.PathExists(a, b); err != nil || got != want {
						return bad("PathExists("+a+","+b+")", fmt.Sprint(got, err), fmt.Sprint(want))
					}
					if needRev() {
						if got, err := rev.PathExists(b, a); err != nil || got != want {
							return bad("Reversed().PathExists("+b+","+a+")", fmt.Sprint(got, err), fmt.Sprint(want))
						}
					}
				}
			}
		case "lookup":
			var lk []string
			for _, a := range c.labels {
				if n, err := g.GetNodeByLabel(a); err != nil {
					lk = append(lk, a+"=notfound")
				} else {
					lk = append(lk, fmt.Sprintf("%s=%d:%s", a, nkMap[n.NodeType()], n.Label()))
				}
			}
			if got := strings.Join(lk, " "); got != c.canon.lookup {
				return bad("GetNodeByLabel", got, c.canon.lookup)
			}
		}
		done = append(done, op)
	}
	return ""
}

func (c *plainCtx) check(cfg simrt.Config) ([]mismatch, simrt.Stats, string) {
	mm, st, summary := c.check0(cfg)
	return settleAborted([]string{"C17"}, false, mm, st), st, summary
}

func (c *plainCtx) check0(cfg simrt.Config) ([]mismatch, simrt.Stats, string) {
	var mm []mismatch
	add := func(class, f string, a ...any) {
		mm = append(mm, mismatch{"C17", class, "", fmt.Sprintf(f, a...)})
	}
	simrt.Begin(cfg)
	var o plainObs
	callOrder := ""
	simrt.Run([]func(){func() {
		pm := c.pm
		if c.wl.ScribbleFirst != nil {
			first := c.wl.ScribbleFirst.toProto()
			if g, err := graph.NewAuthorizationModelGraph(first); err == nil {
				scribblePlain(g)
				if rev, err := g.Reversed(); err == nil {
					scribblePlain(rev)
				}
			}
			if c.wl.ReuseObject {
				proto.Reset(first)
				proto.Merge(first, c.pm)
				simrt.CountFault("history.object_reused")
				pm = first
			}
		}
		o = observePlain(pm, c.labels, c.withCycles)
		if o.err == "" && o.panicMsg == "" && c.canon != nil && c.canon.err == "" && simrt.Draw(3) == 1 {
			callOrder = c.callOrderPass(pm)
		}
	}})
	st := simrt.End()
	if callOrder != "" {
		add("plain.call_order", "%s", callOrder)
	}
	if o.panicMsg != "" {
		add("plain.panic", "panic: %s", o.panicMsg)
		return mm, st, "panic"
	}
	if o.err != "" {
		add("plain.error", "NewAuthorizationModelGraph failed on a structurally valid model: %s", o.err)
		return mm, st, "error"
	}
	if o.mutated {
		add("plain.model_modified", "the input model was modified")
	}
	// faithful: nodes and typed edges as the reference dictates
	for n, k := range c.ref.nodes {
		ak, ok := o.kinds[n]
		if !ok {
			add("plain.node_missing", "node %s missing", n)
		} else if ak != k || o.labels[n] != c.ref.label[n] {
			add("plain.node_kind", "node %s has kind %d label %q, expected kind %d label %q", n, ak, o.labels[n], k, c.ref.label[n])
		}
	}
	for n := range o.kinds {
		if _, ok := c.ref.nodes[n]; !ok {
			add("plain.node_extra", "unexpected node %s", n)
		}
	}
	var re []string
	for _, e := range c.ref.edges {
		re = append(re, e.key())
	}
	sort.Strings(re)
	if strings.Join(re, "\n") != strings.Join(o.edges, "\n") {
		add("plain.edges", "edges differ from the reference: %s", diffLists(re, o.edges))
	}
	// reversible
	if o.revOK != "" {
		add("plain.reversed", "%s", o.revOK)
	}
	if o.rev2Dot != o.dot {
		add("plain.reversed_twice_dot", "Reversed().Reversed().GetDOT() differs from GetDOT(): %s", firstLineDiff(o.dot, o.rev2Dot))
	}
	// stable DOT across schedules / builds
	if c.canon.dot != o.dot {
		add("plain.dot_unstable", "GetDOT() differs from the canonical build: %s", firstLineDiff(c.canon.dot, o.dot))
	}
	if c.canon.revDot != o.revDot {
		add("plain.reversed_dot_unstable", "Reversed().GetDOT() differs from the canonical build: %s", firstLineDiff(c.canon.revDot, o.revDot))
	}
	if strings.Contains(o.dot, ":01") && containsULID(o.dot) {
		add("plain.dot_ulid", "DOT text contains a ULID")
	}
	// sound path queries
	if o.pathDual != "" {
		add("plain.path_duality", "%s", o.pathDual)
	}
	for _, a := range c.labels {
		_, aok := c.ref.nodes[a]
		reach := c.reachOf[a]
		for _, b := range c.labels {
			_, bok := c.ref.nodes[b]
			got, answered := o.paths[a+" => "+b]
			if aok && bok {
				if !answered {
					add("plain.path_error", "PathExists(%s,%s) returned an error for two existing nodes", a, b)
				} else if got != reach[b] {
					add("plain.path_wrong", "PathExists(%s,%s)=%v, reference reachability says %v", a, b, got, reach[b])
				}
			} else if answered {
				add("plain.path_unknown_label", "PathExists(%s,%s) answered %v although a label does not exist", a, b, got)
			}
		}
	}
	// label lookup
	var lk []string
	for _, a := range c.labels {
		if k, ok := c.ref.nodes[a]; ok {
			lk = append(lk, fmt.Sprintf("%s=%d:%s", a, k, a))
		} else {
			lk = append(lk, a+"=notfound")
		}
	}
	if strings.Join(lk, " ") != o.lookup {
		add("plain.lookup", "label lookup %q, expected %q", o.lookup, strings.Join(lk, " "))
	}
	// cycles
	cc, acyclic := c.cc, c.acyc
	if o.cycles == "" {
		// not observable any more: skip
	} else if cc && !strings.HasPrefix(o.cycles, "{true") {
		add("plain.cycles", "a cycle of pure computed usersets is not reported as compile-time cycle: %s", o.cycles)
	}
	if o.cycles != "" && acyclic && o.cycles != "{false false}" {
		add("plain.cycles", "acyclic model reports cycles: %s", o.cycles)
	}
	// a reversed graph is a graph of the same model: a cycle of pure computed
	// usersets is one in either direction, and an acyclic model stays acyclic
	for name, cyc := range map[string]string{"reversed": o.revCyc, "twice reversed": o.rev2Cyc} {
		if cyc == "" {
			continue
		}
		if cc && !strings.HasPrefix(cyc, "{true") {
			add("plain.cycles_reversed", "the %s graph does not report the cycle of pure computed usersets as compile-time cycle: %s", name, cyc)
		}
		if acyclic && cyc != "{false false}" {
			add("plain.cycles_reversed", "the %s graph of an acyclic model reports cycles: %s", name, cyc)
		}
		// reversing flips every edge and nothing else: the cycles of the reversed
		// graph are the cycles of the graph walked backwards, over lines of the
		// same kinds, so the two graphs classify them alike - whichever of them
		// was asked first
		if o.cycles != "" && cyc != o.cycles {
			add("plain.cycles_reversed", "the %s graph reports cycles %s, the graph itself %s", name, cyc, o.cycles)
		}
	}
	if o.cycles != c.canon.cycles {
		add("plain.cycles_unstable", "GetCycles() %s, canonical build %s", o.cycles, c.canon.cycles)
	}
	return mm, st, fmt.Sprintf("%d nodes %d lines cycles=%s", len(o.kinds), len(o.edges), o.cycles)
}

func containsULID(s string) bool {
	run := 0
	for i := 0; i < len(s); i++ {
		ch := s[i]
		if (ch >= '0' && ch <= '9') || (ch >= 'A' && ch <= 'Z') {
			run++
			if run >= 26 {
				return true
			}
		} else {
			run = 0
		}
	}
	return false
}

func diffLists(want, got []string) string {
	w := map[string]int{}
	for _, x := range want {
		w[x]++
	}
	for _, x := range got {
		w[x]--
	}
	var out []string
	for k, v := range w {
		if v > 0 {
			out = append(out, "missing: "+k)
		} else if v < 0 {
			out = append(out, "unexpected: "+k)
		}
	}
	sort.Strings(out)
	if len(out) > 4 {
		out = out[:4]
	}
	return strings.Join(out, "; ")
}

func firstLineDiff(a, b string) string {
	la, lb := strings.Split(a, "\n"), strings.Split(b, "\n")
	for i := 0; i < len(la) || i < len(lb); i++ {
		var x, y string
		if i < len(la) {
			x = la[i]
		}
		if i < len(lb) {
			y = lb[i]
		}
		if x != y {
			return fmt.Sprintf("line %d: %q vs %q", i+1, x, y)
		}
	}
	return ""
}

func plainFamily(r *rng, nRandom int, seedBase uint64) []namedSched {
	var fam []namedSched
	fam = append(fam, namedSched{"reverse-all", simrt.Config{Policies: []simrt.Policy{{Mode: "reverse", Occ: -1}}}})
	fam = append(fam, namedSched{"lastfirst-all", simrt.Config{Policies: []simrt.Policy{{Mode: "lastfirst", Occ: -1}}}})
	fam = append(fam, namedSched{"reverse-gonum-iterators", simrt.Config{Policies: []simrt.Policy{{Mode: "reverse", Site: "gonum/graph/iterator", Occ: -1}}}})
	for k := 1; k <= 3; k++ {
		fam = append(fam, namedSched{fmt.Sprintf("rotate-all-%d", k), simrt.Config{Policies: []simrt.Policy{{Mode: "rotate", K: k, Occ: -1}}}})
	}
	for i := 0; i < nRandom; i++ {
		cfg := simrt.Config{
			Seed:       seedBase + uint64(i)*0x9e3779b97f4a7c15 + r.next(),
			Generative: true,
			MapDen:     []uint32{5, 5, 8, 16}[r.intn(4)],
			MapKinds:   0b11110,
			// only matters if the builder starts goroutines of its own
			PreemptDen: []uint32{0, 2, 4, 16}[r.intn(4)],
			MaxSteps:   5_000_000,
		}
		if r.chance(60) {
			cfg.ClockDen = []uint32{2, 5, 9}[r.intn(3)]
			cfg.ClockKinds = uint32(2+r.intn(30)) & 0b11110
		}
		fam = append(fam, namedSched{fmt.Sprintf("random-%d", i), cfg})
	}
	return fam
}

func plainKnobs(r *rng) genKnobs {
	k := drawKnobs(r)
	// any rewrite shape; the plain graph accepts every model
	k.PRewriteBack = []int{0, 15, 40, 80}[r.intn(4)]
	if r.chance(50) {
		k.PUserset = 60 // multi-line node pairs: [t#b] or b
		k.PComputed = 40
	}
	if k.PCond == 0 && r.chance(50) {
		k.PCond = 50
	}
	return k
}

func plainRunOne(b *BatchResult, prop string, seed, run uint64, nRandom int) {
	r := newRNG(seed, hashStr("plainsim"), hashStr(prop), run)
	m := genModel(r, plainKnobs(r))
	if r.chance(8) {
		if fm := fixtureModel(r, false); fm != nil {
			m = fm
			b.Mix["fixture_seeded_models"]++
		}
	}
	if r.chance(2) {
		m = genSeparatorCollision(r)
		b.Mix["separator_collision_models"]++
	} else if r.chance(2) {
		switch r.intn(4) {
		case 3:
			m = genManyRestrictions(r)
		case 0:
			m = genDeepNesting(r)
		case 1:
			m = genManyTypes(r)
		case 2:
			m = genOddNames(r)
		}
		b.Mix["size_depth_name_family_models"]++
	}
	if r.chance(25) {
		addComputedCycle(r, m)
	}
	if r.chance(4) && injectAliasing(r, m) {
		b.Mix["models_with_shared_messages"]++
	} else if r.chance(3) && injectInterning(r, m) {
		b.Mix["models_with_interned_rewrites"]++
	}
	wl := &wlPlain{Model: m}
	if r.chance(15) {
		wl.ScribbleFirst = genModel(r, plainKnobs(r))
		b.Mix["scribbled_histories"]++
	} else if r.chance(12) && len(m.Types) <= 12 {
		// the caller edits ONE model object in place between two builds: the
		// first build sees a near-duplicate (same names, one relation dropped or
		// redirected), the second the model under test
		if cands := modelCandidates(m); len(cands) > 0 {
			wl.ScribbleFirst = cands[r.intn(len(cands))]
			wl.ReuseObject = true
			b.Mix["object_reuse_histories"]++
		}
	}
	c := newPlainCtx(wl)
	b.Workloads++
	b.keySet[hashStr(modelKey(m))] = true
	cc, acyclic := c.ref.cycles()
	// non-trivial: two lines join one node pair, or the model has a cycle
	multiLine := false
	pairs := map[string]int{}
	for _, e := range c.ref.edges {
		pairs[e.from+"|"+e.to]++
		if pairs[e.from+"|"+e.to] > 1 {
			multiLine = true
		}
	}
	nontriv := multiLine || !acyclic
	if multiLine {
		b.Mix["models_with_multi_line_pairs"]++
	}
	if cc {
		b.Mix["models_with_computed_cycle"]++
	}
	if acyclic {
		b.Mix["models_acyclic"]++
	}
	report := func(s namedSched, mm []mismatch, st simrt.Stats) {
		for _, x := range mm {
			var wj []byte
			desc := ""
			if b.keeping() {
				wj, _ = json.Marshal(wl)
				desc = m.describe()
			}
			cfg := s.cfg
			cfg.Tape = st.TapeUsed
			cfg.Generative = false
			v := Violation{Property: prop, Engine: "plainsim", Class: x.class, Detail: x.detail, Seed: seed, Run: run,
				Workload: wj, Sched: cfg, SchedName: s.name, Fingerprint: fpString(st.Fingerprint), Describe: desc}
			b.violation(v)
		}
	}
	canonS := namedSched{"canonical", simrt.Config{}}
	mm, st, summary := c.check(canonS.cfg)
	b.addStats(st, false)
	report(canonS, mm, st)
	if len(b.Samples) < 3 && run%5 == 0 {
		b.Samples = append(b.Samples, Sample{Workload: m.describe(), Sched: "canonical + family", Outcome: summary})
	}
	for _, s := range plainFamily(r, nRandom, seed^run<<20) {
		mm, st, _ := c.check(s.cfg)
		b.addStats(st, nontriv)
		report(s, mm, st)
		if r.chance(2) {
			cfg := s.cfg
			cfg.Tape = st.TapeUsed
			cfg.Generative = false
			mm2, st2, _ := c.check(cfg)
			b.RerunN++
			if st2.Fingerprint != st.Fingerprint || len(mm2) != len(mm) {
				b.RerunDiv++
			}
		}
	}
}

// addComputedCycle rewires 2-4 relations of one type into a cycle of pure
// computed usersets.
func addComputedCycle(r *rng, m *Model) {
	var cands []*Type
	for _, t := range m.Types {
		if len(t.Relations) >= 2 {
			cands = append(cands, t)
		}
	}
	if len(cands) == 0 {
		return
	}
	t := cands[r.intn(len(cands))]
	n := 2 + r.intn(3)
	if n > len(t.Relations) {
		n = len(t.Relations)
	}
	idx := r.perm(len(t.Relations))[:n]
	for i, ri := range idx {
		next := t.Relations[idx[(i+1)%n]]
		rel := t.Relations[ri]
		rel.Expr = &Expr{Kind: KComputed, Rel: next.Name}
		rel.Direct = nil
	}
}
