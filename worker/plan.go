package main

// Explicit workload plans. Every artefact handed to the code under test
// (proto model, JSON, DSL, module files) is rendered from these by the
// harness's own renderers - never by the code under test.

import (
	"fmt"
	"sort"
	"strings"

	openfgav1 "github.com/openfga/api/proto/openfga/v1"
)

type Ref struct {
	Type string `json:"t"`
	Rel  string `json:"r,omitempty"`
	Wild bool   `json:"w,omitempty"`
	Cond string `json:"c,omitempty"`
	// EmptyRel: the relation of the restriction is present and empty - a userset
	// restriction on the relation literally named "" (JSON / protobuf only:
	// `{"type": "group", "relation": ""}`); which branch of the oneof is set, not
	// the value, says what kind of restriction it is
	EmptyRel bool `json:"er,omitempty"`
}

func (r Ref) userset() bool { return r.Rel != "" || r.EmptyRel }

func (r Ref) Target() string {
	switch {
	case r.Wild:
		return r.Type + ":*"
	case r.userset():
		return r.Type + "#" + r.Rel
	}
	return r.Type
}

func (r Ref) DSL() string {
	s := r.Target()
	if r.Cond != "" {
		s += " with " + r.Cond
	}
	return s
}

// Expr kinds.
const (
	KThis     = "this"
	KComputed = "computed"
	KTTU      = "ttu"
	KUnion    = "union"
	KInter    = "intersection"
	KExcl     = "exclusion"
	// KUnset: a userset message with no branch of its oneof set ({} in JSON) - a
	// malformed rewrite the builders must refuse wherever it stands
	KUnset = "unset"
)

type Expr struct {
	Kind     string  `json:"k"`
	Rel      string  `json:"rel,omitempty"`      // computed relation (computed, ttu)
	Tupleset string  `json:"tupleset,omitempty"` // ttu
	Children []*Expr `json:"ch,omitempty"`       // union/intersection: n children; exclusion: base, subtract
	// Dup: in the protobuf rendering this child is THE SAME message (Go pointer)
	// as its previous sibling (whose content it repeats): aliasing inside the
	// input that JSON cannot express but code assembling models can produce.
	Dup bool `json:"dup,omitempty"`
}

func (e *Expr) isOp() bool { return e.Kind == KUnion || e.Kind == KInter || e.Kind == KExcl }

func (e *Expr) clone() *Expr {
	if e == nil {
		return nil
	}
	c := &Expr{Kind: e.Kind, Rel: e.Rel, Tupleset: e.Tupleset, Dup: e.Dup}
	for _, ch := range e.Children {
		c.Children = append(c.Children, ch.clone())
	}
	return c
}

type Relation struct {
	Name   string `json:"name"`
	Expr   *Expr  `json:"expr"`
	Direct []Ref  `json:"direct,omitempty"` // type restrictions (used by every `this` of the relation)
	// HasMeta: emit a metadata entry even when Direct is empty (the DSL
	// parser always does).
	Module string `json:"module,omitempty"`
	File   string `json:"file,omitempty"`
	// ShareWith: in the protobuf rendering the rewrite of this relation is the
	// same message (Go pointer) as that of the named relation of the same type,
	// whose content it repeats.
	ShareWith string `json:"share_with,omitempty"`
	// NoMeta: the type's metadata has no entry for this relation at all (legal
	// in JSON / protobuf for a relation without a direct assignment; the DSL
	// parser always writes one). Such a relation is unattributed.
	NoMeta bool `json:"no_meta,omitempty"`
}

type Type struct {
	Name      string      `json:"name"`
	Relations []*Relation `json:"relations,omitempty"`
	Module    string      `json:"module,omitempty"`
	File      string      `json:"file,omitempty"`
}

type Param struct {
	Name    string `json:"name"`
	Type    string `json:"type"`              // e.g. "string", "list", "map", "ipaddress"
	Generic string `json:"generic,omitempty"` // element type for list/map
}

type Cond struct {
	Name   string  `json:"name"`
	Key    string  `json:"key,omitempty"` // map key when it differs from the name (the printer rejects that)
	Params []Param `json:"params"`
	Expr   string  `json:"expr"`
	Module string  `json:"module,omitempty"`
	File   string  `json:"file,omitempty"`
}

type Model struct {
	ID     string  `json:"id,omitempty"` // the model's id field (part of its content)
	Schema string  `json:"schema"`
	Types  []*Type `json:"types"`
	Conds  []*Cond `json:"conds,omitempty"`
	// Intern: in the protobuf rendering every operator rewrite occurs once:
	// equal union / intersection / exclusion subtrees anywhere in the model
	// (other relations, other types) are THE SAME message - what code that
	// assembles models from a library of rewrite constants produces.
	Intern bool `json:"intern,omitempty"`
	// Present: optional parts that the plan leaves out are present-but-empty in
	// the protobuf rendering instead of absent (metadata without entries, an
	// empty relations / conditions map, an empty restriction list, a source info
	// without file, condition metadata without module): absent and empty mean
	// the same model.
	Present bool `json:"present,omitempty"`
}

// internTable is non-nil while a model with Intern is rendered.
var internTable map[string]*openfgav1.Userset

// aliased reports whether the protobuf rendering of the plan shares messages
// (ShareWith, Dup, Intern).
func (m *Model) aliased() bool {
	if m.Intern {
		return true
	}
	for _, t := range m.Types {
		for _, r := range t.Relations {
			if r.ShareWith != "" {
				return true
			}
			var rec func(e *Expr) bool
			rec = func(e *Expr) bool {
				if e == nil {
					return false
				}
				if e.Dup {
					return true
				}
				for _, c := range e.Children {
					if rec(c) {
						return true
					}
				}
				return false
			}
			if rec(r.Expr) {
				return true
			}
		}
	}
	return false
}

func (m *Model) clone() *Model {
	c := &Model{Schema: m.Schema, ID: m.ID, Intern: m.Intern, Present: m.Present}
	for _, t := range m.Types {
		ct := &Type{Name: t.Name, Module: t.Module, File: t.File}
		for _, r := range t.Relations {
			cr := &Relation{Name: r.Name, Expr: r.Expr.clone(), Module: r.Module, File: r.File, ShareWith: r.ShareWith, NoMeta: r.NoMeta}
			cr.Direct = append([]Ref(nil), r.Direct...)
			ct.Relations = append(ct.Relations, cr)
		}
		c.Types = append(c.Types, ct)
	}
	for _, cd := range m.Conds {
		cc := *cd
		cc.Params = append([]Param(nil), cd.Params...)
		c.Conds = append(c.Conds, &cc)
	}
	return c
}

func (m *Model) typeByName(n string) *Type {
	for _, t := range m.Types {
		if t.Name == n {
			return t
		}
	}
	return nil
}

func (t *Type) rel(n string) *Relation {
	if t == nil {
		return nil
	}
	for _, r := range t.Relations {
		if r.Name == n {
			return r
		}
	}
	return nil
}

// ---------------------------------------------------------------------------
// plan -> proto (harness's own builder; `This` is always a non-empty oneof)

func exprToProto(e *Expr) *openfgav1.Userset {
	if internTable != nil && e.isOp() {
		k := exprKey(e)
		if u, ok := internTable[k]; ok {
			return u
		}
		u := exprToProto1(e)
		internTable[k] = u
		return u
	}
	return exprToProto1(e)
}

func exprToProto1(e *Expr) *openfgav1.Userset {
	switch e.Kind {
	case KThis:
		return &openfgav1.Userset{Userset: &openfgav1.Userset_This{This: &openfgav1.DirectUserset{}}}
	case KComputed:
		return &openfgav1.Userset{Userset: &openfgav1.Userset_ComputedUserset{ComputedUserset: &openfgav1.ObjectRelation{Relation: e.Rel}}}
	case KTTU:
		return &openfgav1.Userset{Userset: &openfgav1.Userset_TupleToUserset{TupleToUserset: &openfgav1.TupleToUserset{
			Tupleset:        &openfgav1.ObjectRelation{Relation: e.Tupleset},
			ComputedUserset: &openfgav1.ObjectRelation{Relation: e.Rel},
		}}}
	case KUnion:
		return &openfgav1.Userset{Userset: &openfgav1.Userset_Union{Union: &openfgav1.Usersets{Child: childrenToProto(e)}}}
	case KInter:
		return &openfgav1.Userset{Userset: &openfgav1.Userset_Intersection{Intersection: &openfgav1.Usersets{Child: childrenToProto(e)}}}
	case KExcl:
		ch := childrenToProto(e)
		return &openfgav1.Userset{Userset: &openfgav1.Userset_Difference{Difference: &openfgav1.Difference{Base: ch[0], Subtract: ch[1]}}}
	case KUnset:
		return &openfgav1.Userset{}
	}
	panic("bad expr kind " + e.Kind)
}

func childrenToProto(e *Expr) []*openfgav1.Userset {
	out := make([]*openfgav1.Userset, len(e.Children))
	for i, c := range e.Children {
		if c.Dup && i > 0 && exprKey(c) == exprKey(e.Children[i-1]) {
			out[i] = out[i-1] // the same message twice
			continue
		}
		out[i] = exprToProto(c)
	}
	return out
}

func refToProto(r Ref) *openfgav1.RelationReference {
	p := &openfgav1.RelationReference{Type: r.Type, Condition: r.Cond}
	if r.Wild {
		p.RelationOrWildcard = &openfgav1.RelationReference_Wildcard{Wildcard: &openfgav1.Wildcard{}}
	} else if r.userset() {
		p.RelationOrWildcard = &openfgav1.RelationReference_Relation{Relation: r.Rel}
	}
	return p
}

var paramTypeNames = map[string]openfgav1.ConditionParamTypeRef_TypeName{
	"any": openfgav1.ConditionParamTypeRef_TYPE_NAME_ANY, "bool": openfgav1.ConditionParamTypeRef_TYPE_NAME_BOOL,
	"string": openfgav1.ConditionParamTypeRef_TYPE_NAME_STRING, "int": openfgav1.ConditionParamTypeRef_TYPE_NAME_INT,
	"uint": openfgav1.ConditionParamTypeRef_TYPE_NAME_UINT, "double": openfgav1.ConditionParamTypeRef_TYPE_NAME_DOUBLE,
	"duration": openfgav1.ConditionParamTypeRef_TYPE_NAME_DURATION, "timestamp": openfgav1.ConditionParamTypeRef_TYPE_NAME_TIMESTAMP,
	"map": openfgav1.ConditionParamTypeRef_TYPE_NAME_MAP, "list": openfgav1.ConditionParamTypeRef_TYPE_NAME_LIST,
	"ipaddress": openfgav1.ConditionParamTypeRef_TYPE_NAME_IPADDRESS,
}

// toProto renders the plan. withSourceInfo controls modular attribution.
func (m *Model) toProto() *openfgav1.AuthorizationModel {
	if m.Intern {
		internTable = map[string]*openfgav1.Userset{}
		defer func() { internTable = nil }()
	}
	pm := &openfgav1.AuthorizationModel{SchemaVersion: m.Schema, Id: m.ID}
	for _, t := range m.Types {
		td := &openfgav1.TypeDefinition{Type: t.Name}
		if len(t.Relations) > 0 {
			td.Relations = map[string]*openfgav1.Userset{}
			td.Metadata = &openfgav1.Metadata{Relations: map[string]*openfgav1.RelationMetadata{}}
			for _, r := range t.Relations {
				td.Relations[r.Name] = exprToProto(r.Expr)
				if r.NoMeta && len(r.Direct) == 0 && r.Module == "" && r.File == "" && !containsThis(r.Expr) {
					continue
				}
				rm := &openfgav1.RelationMetadata{}
				for _, d := range r.Direct {
					rm.DirectlyRelatedUserTypes = append(rm.DirectlyRelatedUserTypes, refToProto(d))
				}
				if r.Module != "" || r.File != "" {
					rm.Module = r.Module
					if r.File != "" {
						rm.SourceInfo = &openfgav1.SourceInfo{File: r.File}
					}
				}
				td.Metadata.Relations[r.Name] = rm
			}
			for _, r := range t.Relations {
				if o := t.rel(r.ShareWith); r.ShareWith != "" && o != nil && o != r && exprKey(o.Expr) == exprKey(r.Expr) {
					td.Relations[r.Name] = td.Relations[o.Name] // the same message for two relations
				}
			}
		}
		if t.Module != "" || t.File != "" {
			if td.Metadata == nil {
				td.Metadata = &openfgav1.Metadata{}
			}
			td.Metadata.Module = t.Module
			if t.File != "" {
				td.Metadata.SourceInfo = &openfgav1.SourceInfo{File: t.File}
			}
		}
		if m.Present {
			if td.Relations == nil {
				td.Relations = map[string]*openfgav1.Userset{}
			}
			if td.Metadata == nil {
				td.Metadata = &openfgav1.Metadata{}
			}
			if td.Metadata.Relations == nil {
				td.Metadata.Relations = map[string]*openfgav1.RelationMetadata{}
			}
			if td.Metadata.SourceInfo == nil {
				td.Metadata.SourceInfo = &openfgav1.SourceInfo{}
			}
			for _, rm := range td.Metadata.Relations {
				if rm.DirectlyRelatedUserTypes == nil {
					rm.DirectlyRelatedUserTypes = []*openfgav1.RelationReference{}
				}
				if rm.SourceInfo == nil {
					rm.SourceInfo = &openfgav1.SourceInfo{}
				}
			}
		}
		pm.TypeDefinitions = append(pm.TypeDefinitions, td)
	}
	if m.Present && len(m.Conds) == 0 {
		pm.Conditions = map[string]*openfgav1.Condition{}
	}
	if len(m.Conds) > 0 {
		pm.Conditions = map[string]*openfgav1.Condition{}
		for _, c := range m.Conds {
			pc := &openfgav1.Condition{Name: c.Name, Expression: c.Expr, Parameters: map[string]*openfgav1.ConditionParamTypeRef{}}
			for _, p := range c.Params {
				ref := &openfgav1.ConditionParamTypeRef{TypeName: paramTypeNames[p.Type]}
				if p.Generic != "" {
					ref.GenericTypes = []*openfgav1.ConditionParamTypeRef{{TypeName: paramTypeNames[p.Generic]}}
				}
				pc.Parameters[p.Name] = ref
			}
			if c.Module != "" || c.File != "" {
				pc.Metadata = &openfgav1.ConditionMetadata{Module: c.Module}
				if c.File != "" {
					pc.Metadata.SourceInfo = &openfgav1.SourceInfo{File: c.File}
				}
			}
			key := c.Name
			if c.Key != "" {
				key = c.Key
			}
			pm.Conditions[key] = pc
		}
	}
	return pm
}

// ---------------------------------------------------------------------------
// plan -> DSL (only for DSL expressible plans: at most one `this` per
// relation and only in first position; checked by dslExpressible)

func exprDSL(e *Expr, direct []Ref, top bool) string {
	switch e.Kind {
	case KThis:
		parts := make([]string, len(direct))
		for i, d := range direct {
			parts[i] = d.DSL()
		}
		return "[" + strings.Join(parts, ", ") + "]"
	case KComputed:
		return e.Rel
	case KTTU:
		return e.Rel + " from " + e.Tupleset
	case KUnset:
		return "<unset>"
	}
	var sep string
	switch e.Kind {
	case KUnion:
		sep = " or "
	case KInter:
		sep = " and "
	case KExcl:
		sep = " but not "
	}
	parts := make([]string, len(e.Children))
	for i, c := range e.Children {
		parts[i] = exprDSL(c, direct, false)
	}
	s := strings.Join(parts, sep)
	if !top {
		s = "(" + s + ")"
	}
	return s
}

// dslExpressible: at most one `this`, in "first position" recursively, and
// every union/intersection has >= 2 children.
func dslExpressible(r *Relation) bool {
	n := 0
	var count func(e *Expr) bool
	count = func(e *Expr) bool {
		if e.Kind == KThis {
			n++
		}
		if (e.Kind == KUnion || e.Kind == KInter) && len(e.Children) < 2 {
			return false
		}
		for _, c := range e.Children {
			if !count(c) {
				return false
			}
		}
		return true
	}
	if !count(r.Expr) {
		return false
	}
	if n > 1 {
		return false
	}
	if n == 1 && len(r.Direct) == 0 {
		return false
	}
	if n == 0 && len(r.Direct) > 0 {
		return false
	}
	var first func(e *Expr) bool
	first = func(e *Expr) bool {
		if e.Kind == KThis {
			return true
		}
		if e.isOp() {
			return first(e.Children[0])
		}
		return false
	}
	if n == 1 && !first(r.Expr) {
		return false
	}
	return true
}

func (m *Model) dslExpressible() bool {
	for _, t := range m.Types {
		for _, r := range t.Relations {
			if !dslExpressible(r) {
				return false
			}
		}
	}
	return true
}

func (t *Type) dsl(sb *strings.Builder, extend bool) {
	if extend {
		sb.WriteString("extend ")
	}
	sb.WriteString("type " + t.Name + "\n")
	if len(t.Relations) > 0 {
		sb.WriteString("  relations\n")
		for _, r := range t.Relations {
			sb.WriteString("    define " + r.Name + ": " + exprDSL(r.Expr, r.Direct, true) + "\n")
		}
	}
}

func (c *Cond) dsl(sb *strings.Builder) {
	ps := make([]string, len(c.Params))
	for i, p := range c.Params {
		ps[i] = p.Name + ": " + p.Type
		if p.Generic != "" {
			ps[i] += "<" + p.Generic + ">"
		}
	}
	sb.WriteString("condition " + c.Name + "(" + strings.Join(ps, ", ") + ") {\n  " + c.Expr + "\n}\n")
}

func (m *Model) toDSL() string {
	var sb strings.Builder
	sb.WriteString("model\n  schema " + m.Schema + "\n")
	for _, t := range m.Types {
		sb.WriteString("\n")
		t.dsl(&sb, false)
	}
	for _, c := range m.Conds {
		sb.WriteString("\n")
		c.dsl(&sb)
	}
	return sb.String()
}

// ---------------------------------------------------------------------------
// proto -> plan (for fixtures)

func exprFromProto(u *openfgav1.Userset) (*Expr, error) {
	switch rw := u.GetUserset().(type) {
	case *openfgav1.Userset_This:
		return &Expr{Kind: KThis}, nil
	case *openfgav1.Userset_ComputedUserset:
		return &Expr{Kind: KComputed, Rel: rw.ComputedUserset.GetRelation()}, nil
	case *openfgav1.Userset_TupleToUserset:
		return &Expr{Kind: KTTU, Rel: rw.TupleToUserset.GetComputedUserset().GetRelation(), Tupleset: rw.TupleToUserset.GetTupleset().GetRelation()}, nil
	case *openfgav1.Userset_Union:
		e := &Expr{Kind: KUnion}
		for _, c := range rw.Union.GetChild() {
			ce, err := exprFromProto(c)
			if err != nil {
				return nil, err
			}
			e.Children = append(e.Children, ce)
		}
		return e, nil
	case *openfgav1.Userset_Intersection:
		e := &Expr{Kind: KInter}
		for _, c := range rw.Intersection.GetChild() {
			ce, err := exprFromProto(c)
			if err != nil {
				return nil, err
			}
			e.Children = append(e.Children, ce)
		}
		return e, nil
	case *openfgav1.Userset_Difference:
		b, err := exprFromProto(rw.Difference.GetBase())
		if err != nil {
			return nil, err
		}
		s, err := exprFromProto(rw.Difference.GetSubtract())
		if err != nil {
			return nil, err
		}
		return &Expr{Kind: KExcl, Children: []*Expr{b, s}}, nil
	}
	return nil, fmt.Errorf("unknown userset")
}

func modelFromProto(pm *openfgav1.AuthorizationModel) (*Model, error) {
	m := &Model{Schema: pm.GetSchemaVersion(), ID: pm.GetId()}
	for _, td := range pm.GetTypeDefinitions() {
		t := &Type{Name: td.GetType(), Module: td.GetMetadata().GetModule(), File: td.GetMetadata().GetSourceInfo().GetFile()}
		names := make([]string, 0, len(td.GetRelations()))
		for n := range td.GetRelations() {
			names = append(names, n)
		}
		sort.Strings(names)
		for _, n := range names {
			e, err := exprFromProto(td.GetRelations()[n])
			if err != nil {
				return nil, err
			}
			r := &Relation{Name: n, Expr: e}
			if md, ok := td.GetMetadata().GetRelations()[n]; ok {
				r.Module = md.GetModule()
				r.File = md.GetSourceInfo().GetFile()
				for _, d := range md.GetDirectlyRelatedUserTypes() {
					r.Direct = append(r.Direct, Ref{Type: d.GetType(), Rel: d.GetRelation(), Wild: d.GetWildcard() != nil, Cond: d.GetCondition()})
				}
			}
			t.Relations = append(t.Relations, r)
		}
		m.Types = append(m.Types, t)
	}
	cn := make([]string, 0, len(pm.GetConditions()))
	for n := range pm.GetConditions() {
		cn = append(cn, n)
	}
	sort.Strings(cn)
	for _, n := range cn {
		pc := pm.GetConditions()[n]
		c := &Cond{Name: pc.GetName(), Expr: pc.GetExpression(), Module: pc.GetMetadata().GetModule(), File: pc.GetMetadata().GetSourceInfo().GetFile()}
		pn := make([]string, 0, len(pc.GetParameters()))
		for k := range pc.GetParameters() {
			pn = append(pn, k)
		}
		sort.Strings(pn)
		for _, k := range pn {
			pt := pc.GetParameters()[k]
			p := Param{Name: k, Type: strings.ToLower(strings.TrimPrefix(pt.GetTypeName().String(), "TYPE_NAME_"))}
			if len(pt.GetGenericTypes()) > 0 {
				p.Generic = strings.ToLower(strings.TrimPrefix(pt.GetGenericTypes()[0].GetTypeName().String(), "TYPE_NAME_"))
			}
			c.Params = append(c.Params, p)
		}
		m.Conds = append(m.Conds, c)
	}
	return m, nil
}
