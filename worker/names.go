package main

import (
	"sort"
	"strings"
)

// Name dialects: a generated model is renamed, consistently, into a vocabulary
// chosen to collide with what code might key, join, compare or special-case
// names by: the labels the graphs give their operator nodes and edges, grammar
// keywords that are legal names, names that differ by case or by one character,
// names made of other names and a separator, one small vocabulary used for
// types, relations and conditions alike, and (where the model need not be
// expressible in the DSL) names only JSON / protobuf can carry. Renaming is
// injective per namespace, so the shape of the model does not change.

var inDSLGen bool // set by genDSLModel: names must be DSL identifiers

var (
	dialectTypeRel = map[string][]string{
		"labels":   {"union", "intersection", "exclusion", "this", "none", "self", "computed", "direct", "but", "not"},
		"keywords": {"model", "schema", "module", "extend", "type", "relation", "list", "map", "string", "int", "bool"},
		"case":     {"user", "User", "USER", "user_", "_user", "users", "u-ser", "userS"},
		"sep":      {"a", "b", "a.b", "a/b", "a-b", "a_b", "b.a", "a.b.a", "b/a"},
		"cross":    {"a", "b", "member", "doc", "user", "c1"},
	}
	dialectCond = map[string][]string{
		"labels":   {"union", "intersection", "exclusion", "this", "none", "self", "computed", "direct", "but", "not"},
		"keywords": {"self", "none", "this"},
		"case":     {"cond", "Cond", "COND", "cond_", "_cond", "conds"},
		"sep":      {"a", "b", "a-b", "a_b", "b-a"},
		"cross":    {"a", "b", "member", "doc", "user", "c1"},
	}
	dialectJSONOnly = []string{"a b", "üser", "用户", "a|b", "a,b", "x'y", "q\"r", "1", "-", ".", "%", "a\\b", "ａ", "a\tb", " a", "a ", strings.Repeat("n", 254), "é", "é"}
	dialectNames    = []string{"labels", "keywords", "case", "sep", "cross", "jsononly"}
)

// applyDialect renames m in place and returns the dialect used ("" = none).
func applyDialect(r *rng, m *Model, dslOnly bool) string {
	d := dialectNames[r.intn(len(dialectNames))]
	if d == "jsononly" && dslOnly {
		d = "cross"
	}
	typePool, relPoolD, condPool := dialectTypeRel[d], dialectTypeRel[d], dialectCond[d]
	if d == "jsononly" {
		typePool, relPoolD, condPool = dialectJSONOnly, dialectJSONOnly, dialectJSONOnly
	}
	types, rels, conds := map[string]bool{}, map[string]bool{}, map[string]bool{}
	var walk func(e *Expr)
	walk = func(e *Expr) {
		if e == nil {
			return
		}
		if e.Rel != "" {
			rels[e.Rel] = true
		}
		if e.Tupleset != "" {
			rels[e.Tupleset] = true
		}
		for _, c := range e.Children {
			walk(c)
		}
	}
	for _, t := range m.Types {
		types[t.Name] = true
		for _, rel := range t.Relations {
			rels[rel.Name] = true
			walk(rel.Expr)
			for _, ref := range rel.Direct {
				types[ref.Type] = true
				if ref.Rel != "" {
					rels[ref.Rel] = true
				}
				if ref.Cond != "" {
					conds[ref.Cond] = true
				}
			}
		}
	}
	for _, c := range m.Conds {
		conds[c.Name] = true
	}
	mapping := func(have map[string]bool, pool []string) map[string]string {
		names := make([]string, 0, len(have))
		for n := range have {
			names = append(names, n)
		}
		sort.Strings(names)
		used := map[string]bool{}
		for _, n := range names {
			used[n] = true
		}
		out := map[string]string{}
		for _, n := range names {
			if !r.chance(70) {
				continue
			}
			for tries := 0; tries < 6; tries++ {
				c := pool[r.intn(len(pool))]
				if !used[c] {
					used[c] = true
					out[n] = c
					break
				}
			}
		}
		return out
	}
	tm, rm, cm := mapping(types, typePool), mapping(rels, relPoolD), mapping(conds, condPool)
	if len(tm)+len(rm)+len(cm) == 0 {
		return ""
	}
	re := func(mp map[string]string, n string) string {
		if v, ok := mp[n]; ok {
			return v
		}
		return n
	}
	var ren func(e *Expr)
	ren = func(e *Expr) {
		if e == nil {
			return
		}
		if e.Rel != "" {
			e.Rel = re(rm, e.Rel)
		}
		if e.Tupleset != "" {
			e.Tupleset = re(rm, e.Tupleset)
		}
		for _, c := range e.Children {
			ren(c)
		}
	}
	for _, t := range m.Types {
		t.Name = re(tm, t.Name)
		for _, rel := range t.Relations {
			rel.Name = re(rm, rel.Name)
			if rel.ShareWith != "" {
				rel.ShareWith = re(rm, rel.ShareWith)
			}
			ren(rel.Expr)
			for i := range rel.Direct {
				ref := &rel.Direct[i]
				ref.Type = re(tm, ref.Type)
				if ref.Rel != "" {
					ref.Rel = re(rm, ref.Rel)
				}
				if ref.Cond != "" {
					ref.Cond = re(cm, ref.Cond)
				}
			}
		}
	}
	for _, c := range m.Conds {
		c.Name = re(cm, c.Name)
		if c.Key != "" {
			c.Key = re(cm, c.Key)
		}
	}
	return d
}
