package main

// Reference models for the weighted graph (DESIGN.md §7.1-7.4). Independent
// of pkg/go: computed from the workload plan alone.

import (
	"fmt"
	"sort"
	"strconv"
	"strings"
)

const refInfinite = 1<<31 - 1

type rkind int

const (
	rkType rkind = iota
	rkRel
	rkOp
	rkWild
)

type ekind int

const (
	ekDirect ekind = iota
	ekRewrite
	ekTTU
	ekComputed
)

func (k ekind) String() string {
	return [...]string{"direct", "rewrite", "ttu", "computed"}[k]
}

type rnode struct {
	id    string // label for types/relations/wildcards, rel@path for operators
	kind  rkind
	label string // union/intersection/exclusion for operators, else id
	edges []*redge
	// operands: for operators, edge index groups (one group per child
	// expression); for relations one group with every edge.
	operands [][]int
	defined  bool // relation node defined by a type definition

	T map[string]bool // terminal types that can reach the node
	W map[string]int  // weights
	// Wc: reachable public types
	Wc map[string]bool
}

type redge struct {
	from, to *rnode
	kind     ekind
	tupleset string
	conds    []string
	W        map[string]int
	Wc       map[string]bool
}

func (e *redge) hop() int {
	if e.kind == ekDirect || e.kind == ekTTU {
		return 1
	}
	return 0
}

type rgraph struct {
	nodes   map[string]*rnode
	order   []*rnode
	invalid []string // structural reasons for rejection (clause iii)
	reasons []string // all reasons for not being well-founded
}

func (g *rgraph) node(id string, kind rkind, label string) *rnode {
	if n := g.nodes[id]; n != nil {
		return n
	}
	n := &rnode{id: id, kind: kind, label: label}
	g.nodes[id] = n
	g.order = append(g.order, n)
	return n
}

func (g *rgraph) wellFounded() bool { return len(g.reasons) == 0 }

// buildRef builds the reference structure for a plan.
func buildRef(m *Model) *rgraph {
	g := &rgraph{nodes: map[string]*rnode{}}
	types := append([]*Type(nil), m.Types...)
	sort.SliceStable(types, func(i, j int) bool { return types[i].Name < types[j].Name })
	hasRel := func(tn, rn string) bool {
		for _, t := range m.Types {
			if t.Name == tn && t.rel(rn) != nil {
				return true
			}
		}
		return false
	}
	for _, t := range types {
		g.node(t.Name, rkType, t.Name)
		rels := append([]*Relation(nil), t.Relations...)
		sort.SliceStable(rels, func(i, j int) bool { return rels[i].Name < rels[j].Name })
		for _, r := range rels {
			rn := g.node(t.Name+"#"+r.Name, rkRel, t.Name+"#"+r.Name)
			rn.defined = true
			var walk func(parent *rnode, e *Expr, path string)
			walk = func(parent *rnode, e *Expr, path string) {
				var group []int
				add := func(ed *redge) {
					ed.from = parent
					parent.edges = append(parent.edges, ed)
					group = append(group, len(parent.edges)-1)
				}
				find := func(to *rnode, k ekind, ts string) (int, *redge) {
					for i, ed := range parent.edges {
						if ed.to == to && ed.kind == k && ed.tupleset == ts {
							return i, ed
						}
					}
					return -1, nil
				}
				switch e.Kind {
				case KThis:
					for _, d := range r.Direct {
						var to *rnode
						switch {
						case d.Wild:
							to = g.node(d.Type+":*", rkWild, d.Type+":*")
						case d.userset():
							to = g.node(d.Type+"#"+d.Rel, rkRel, d.Type+"#"+d.Rel)
						default:
							to = g.node(d.Type, rkType, d.Type)
						}
						c := d.Cond
						if c == "" {
							c = "none"
						}
						if i, ed := find(to, ekDirect, ""); ed != nil {
							has := false
							for _, x := range ed.conds {
								if x == c {
									has = true
								}
							}
							if !has {
								ed.conds = append(ed.conds, c)
							}
							group = append(group, i)
							continue
						}
						add(&redge{to: to, kind: ekDirect, conds: []string{c}})
					}
				case KComputed:
					to := g.node(t.Name+"#"+e.Rel, rkRel, t.Name+"#"+e.Rel)
					k := ekRewrite
					if parent.kind == rkRel {
						k = ekComputed
					}
					add(&redge{to: to, kind: k, conds: []string{"none"}})
				case KTTU:
					ts := t.rel(e.Tupleset)
					if ts == nil || len(ts.Direct) == 0 {
						g.invalid = append(g.invalid, fmt.Sprintf("%s: tupleset %s has no type restrictions", rn.id, e.Tupleset))
						break
					}
					for _, d := range ts.Direct {
						if !hasRel(d.Type, e.Rel) {
							g.invalid = append(g.invalid, fmt.Sprintf("%s: parent type %s lacks relation %s", rn.id, d.Type, e.Rel))
							continue
						}
						to := g.node(d.Type+"#"+e.Rel, rkRel, d.Type+"#"+e.Rel)
						label := t.Name + "#" + e.Tupleset
						if i, ed := find(to, ekTTU, label); ed != nil {
							group = append(group, i)
							continue
						}
						c := d.Cond
						if c == "" {
							c = "none"
						}
						add(&redge{to: to, kind: ekTTU, tupleset: label, conds: []string{c}})
					}
				case KUnset:
					g.invalid = append(g.invalid, fmt.Sprintf("%s: an operand is an unset userset", rn.id))
				default:
					opid := rn.id + "@" + path
					op := g.node(opid, rkOp, e.Kind)
					add(&redge{to: op, kind: ekRewrite, conds: []string{"none"}})
					for i, c := range e.Children {
						p := path
						if p != "" {
							p += "."
						}
						walk(op, c, p+fmt.Sprint(i))
					}
				}
				parent.operands = append(parent.operands, group)
			}
			walk(rn, r.Expr, "")
		}
	}
	g.analyse()
	return g
}

// operandT: terminal types of one operand (= a group of edges).
func operandT(n *rnode, group []int) map[string]bool {
	out := map[string]bool{}
	for _, i := range group {
		to := n.edges[i].to
		switch to.kind {
		case rkType:
			out[to.id] = true
		case rkWild:
			out[strings.TrimSuffix(to.id, ":*")] = true
		default:
			for t := range to.T {
				out[t] = true
			}
		}
	}
	return out
}

func sameSet(a, b map[string]bool) bool {
	if len(a) != len(b) {
		return false
	}
	for k := range a {
		if !b[k] {
			return false
		}
	}
	return true
}

func (g *rgraph) analyse() {
	// 7.2: least fixpoint of T
	for _, n := range g.order {
		n.T = map[string]bool{}
	}
	for changed := true; changed; {
		changed = false
		for _, n := range g.order {
			if n.kind != rkRel && n.kind != rkOp {
				continue
			}
			var nt map[string]bool
			switch {
			case n.kind == rkOp && n.label == KInter:
				for i, grp := range n.operands {
					ot := operandT(n, grp)
					if i == 0 {
						nt = ot
						continue
					}
					for t := range nt {
						if !ot[t] {
							delete(nt, t)
						}
					}
				}
				if nt == nil {
					nt = map[string]bool{}
				}
			case n.kind == rkOp && n.label == KExcl:
				nt = map[string]bool{}
				if len(n.operands) > 0 {
					nt = operandT(n, n.operands[0])
				}
			default:
				nt = map[string]bool{}
				for _, grp := range n.operands {
					for t := range operandT(n, grp) {
						nt[t] = true
					}
				}
			}
			if !sameSet(nt, n.T) {
				n.T = nt
				changed = true
			}
		}
	}

	// reachability helpers over node indices
	idx := map[*rnode]int{}
	for i, n := range g.order {
		idx[n] = i
	}
	N := len(g.order)
	reachVia := func(filter func(e *redge) bool) [][]bool {
		r := make([][]bool, N)
		for i := range r {
			r[i] = make([]bool, N)
		}
		for i, n := range g.order {
			// BFS over >= 1 edge
			stack := []*rnode{}
			for _, e := range n.edges {
				if filter(e) && !r[i][idx[e.to]] {
					r[i][idx[e.to]] = true
					stack = append(stack, e.to)
				}
			}
			for len(stack) > 0 {
				x := stack[len(stack)-1]
				stack = stack[:len(stack)-1]
				for _, e := range x.edges {
					if filter(e) && !r[i][idx[e.to]] {
						r[i][idx[e.to]] = true
						stack = append(stack, e.to)
					}
				}
			}
		}
		return r
	}

	// (iii) structural
	g.reasons = append(g.reasons, g.invalid...)
	// (i) a cycle over non tuple edges
	isTuple := func(e *redge) bool {
		return e.kind == ekTTU || (e.kind == ekDirect && e.to.kind == rkRel)
	}
	nonTuple := reachVia(func(e *redge) bool { return !isTuple(e) })
	for i, n := range g.order {
		if nonTuple[i][i] {
			g.reasons = append(g.reasons, "rewrite-only cycle through "+n.id)
			break
		}
	}
	// (ii) intersection / exclusion on a cycle
	all := reachVia(func(e *redge) bool { return true })
	for i, n := range g.order {
		if n.kind == rkOp && (n.label == KInter || n.label == KExcl) && all[i][i] {
			g.reasons = append(g.reasons, n.label+" on a cycle: "+n.id)
			break
		}
	}
	// (iv) empty intersection, (v) relation reaching no terminal type
	for _, n := range g.order {
		if n.kind == rkOp && n.label == KInter && len(n.T) == 0 {
			g.reasons = append(g.reasons, "intersection with no common type: "+n.id)
			break
		}
	}
	for _, n := range g.order {
		if n.kind == rkRel && len(n.T) == 0 {
			g.reasons = append(g.reasons, "relation reaches no terminal type: "+n.id)
			break
		}
	}

	// 7.4 wildcards: plain reachability of t:* nodes
	for i, n := range g.order {
		n.Wc = map[string]bool{}
		for j, m := range g.order {
			if m.kind == rkWild && all[i][j] {
				n.Wc[strings.TrimSuffix(m.id, ":*")] = true
			}
		}
	}
	for _, n := range g.order {
		for _, e := range n.edges {
			e.Wc = map[string]bool{}
			if e.to.kind == rkWild {
				e.Wc[strings.TrimSuffix(e.to.id, ":*")] = true
			}
			for t := range e.to.Wc {
				e.Wc[t] = true
			}
		}
	}

	if !g.wellFounded() {
		return
	}

	// 7.3 weights: longest tuple-hop walk in the pair graph, per terminal type
	typesAll := map[string]bool{}
	for _, n := range g.order {
		for t := range n.T {
			typesAll[t] = true
		}
	}
	for _, n := range g.order {
		if n.kind == rkRel || n.kind == rkOp {
			n.W = map[string]int{}
		}
	}
	has := func(n *rnode, t string) bool {
		switch n.kind {
		case rkType:
			return n.id == t
		case rkWild:
			return strings.TrimSuffix(n.id, ":*") == t
		}
		return n.T[t]
	}
	for t := range typesAll {
		// pair-graph edges for type t
		succ := func(n *rnode) []*redge {
			if !has(n, t) {
				return nil
			}
			var out []*redge
			for _, e := range n.edges {
				if has(e.to, t) {
					out = append(out, e)
				}
			}
			return out
		}
		// on-cycle detection within the pair graph
		r := make([][]bool, N)
		for i, n := range g.order {
			r[i] = make([]bool, N)
			stack := []*rnode{n}
			first := true
			for len(stack) > 0 {
				x := stack[len(stack)-1]
				stack = stack[:len(stack)-1]
				for _, e := range succ(x) {
					if !r[i][idx[e.to]] {
						r[i][idx[e.to]] = true
						stack = append(stack, e.to)
					}
				}
				_ = first
			}
		}
		inf := make([]bool, N)
		for i := range g.order {
			if r[i][i] {
				inf[i] = true
			}
		}
		for i := range g.order {
			for j := range g.order {
				if r[i][j] && r[j][j] {
					inf[i] = true
				}
			}
		}
		memo := map[*rnode]int{}
		var w func(n *rnode) int
		w = func(n *rnode) int {
			if n.kind == rkType || n.kind == rkWild {
				return 0
			}
			if inf[idx[n]] {
				return refInfinite
			}
			if v, ok := memo[n]; ok {
				return v
			}
			best := 0
			for _, e := range succ(n) {
				v := w(e.to)
				if v != refInfinite {
					v += e.hop()
				}
				if v > best {
					best = v
				}
			}
			memo[n] = best
			return best
		}
		for _, n := range g.order {
			if (n.kind == rkRel || n.kind == rkOp) && n.T[t] {
				n.W[t] = w(n)
			}
		}
	}
	// edge weights: target's weight map plus the hop
	for _, n := range g.order {
		for _, e := range n.edges {
			e.W = map[string]int{}
			switch e.to.kind {
			case rkType:
				e.W[e.to.id] = 1
			case rkWild:
				e.W[strings.TrimSuffix(e.to.id, ":*")] = 1
			default:
				for t, v := range e.to.W {
					if v != refInfinite {
						v += e.hop()
					}
					e.W[t] = v
				}
			}
		}
	}
}

// nontrivial: the model has a cycle or an intersection/exclusion (evidence rule)
func (g *rgraph) nontrivial() bool {
	for _, n := range g.order {
		if n.kind == rkOp && (n.label == KInter || n.label == KExcl) {
			return true
		}
	}
	// any cycle
	color := map[*rnode]int{}
	var dfs func(n *rnode) bool
	dfs = func(n *rnode) bool {
		color[n] = 1
		for _, e := range n.edges {
			if color[e.to] == 1 {
				return true
			}
			if color[e.to] == 0 && dfs(e.to) {
				return true
			}
		}
		color[n] = 2
		return false
	}
	for _, n := range g.order {
		if color[n] == 0 && dfs(n) {
			return true
		}
	}
	return false
}

func setKeys(m map[string]bool) []string {
	out := make([]string, 0, len(m))
	for k := range m {
		out = append(out, k)
	}
	sort.Strings(out)
	return out
}

func fmtWeights(m map[string]int) string {
	ks := make([]string, 0, len(m))
	for k := range m {
		ks = append(ks, k)
	}
	sort.Strings(ks)
	parts := make([]string, len(ks))
	for i, k := range ks {
		v := "inf"
		if m[k] != refInfinite {
			v = strconv.Itoa(m[k])
		}
		parts[i] = k + ":" + v
	}
	return "{" + strings.Join(parts, ",") + "}"
}

// sccs returns the strongly connected components with a cycle (size >= 2 or a
// self loop), as lists of nodes.
func (g *rgraph) sccs() [][]*rnode {
	index := map[*rnode]int{}
	low := map[*rnode]int{}
	on := map[*rnode]bool{}
	var stack []*rnode
	var out [][]*rnode
	next := 0
	var strong func(v *rnode)
	strong = func(v *rnode) {
		index[v], low[v] = next, next
		next++
		stack = append(stack, v)
		on[v] = true
		for _, e := range v.edges {
			w := e.to
			if _, ok := index[w]; !ok {
				strong(w)
				if low[w] < low[v] {
					low[v] = low[w]
				}
			} else if on[w] && index[w] < low[v] {
				low[v] = index[w]
			}
		}
		if low[v] == index[v] {
			var comp []*rnode
			for {
				w := stack[len(stack)-1]
				stack = stack[:len(stack)-1]
				on[w] = false
				comp = append(comp, w)
				if w == v {
					break
				}
			}
			cyc := len(comp) >= 2
			if !cyc {
				for _, e := range v.edges {
					if e.to == v {
						cyc = true
					}
				}
			}
			if cyc {
				out = append(out, comp)
			}
		}
	}
	for _, n := range g.order {
		if _, ok := index[n]; !ok {
			strong(n)
		}
	}
	return out
}

func (g *rgraph) cyclicSCCs() int { return len(g.sccs()) }

// interlocking: some cyclic component contains more than one simple cycle
// (more internal edges than nodes).
func (g *rgraph) interlocking() bool {
	for _, comp := range g.sccs() {
		in := map[*rnode]bool{}
		for _, n := range comp {
			in[n] = true
		}
		edges := 0
		for _, n := range comp {
			for _, e := range n.edges {
				if in[e.to] {
					edges++
				}
			}
		}
		if edges > len(comp) {
			return true
		}
	}
	return false
}
