package main

// The simulator worker: built by the driver against an instrumented scratch
// copy of /repo's working tree. One OS process per shard, GOMAXPROCS=1.

import (
	"encoding/json"
	"flag"
	"fmt"
	"os"
	"runtime"
	"runtime/pprof"
	"strings"
	"time"
	"verifsim/simrt"
)

type runArgs struct {
	Engine   string
	Property string
	Tier     string
	Seed     uint64
	Shard    int
	NShards  int
	N        int // number of workloads in the whole batch
	MaxSecs  float64
	Out      string
	Known    string
	Race     bool
	RepoRoot string
}

func main() {
	if len(os.Args) < 2 {
		fmt.Fprintln(os.Stderr, "usage: worker run|replay ...")
		os.Exit(2)
	}
	runtime.GOMAXPROCS(1)
	if v := os.Getenv("VERIF_GOMAXPROCS"); v != "" {
		// determinism proof only: the simulated schedule must not depend on it
		var n int
		fmt.Sscan(v, &n)
		if n > 0 {
			runtime.GOMAXPROCS(n)
		}
	}
	if pf := os.Getenv("VERIF_CPUPROFILE"); pf != "" {
		if f, err := os.Create(pf); err == nil {
			_ = pprof.StartCPUProfile(f)
			defer pprof.StopCPUProfile()
		}
	}
	switch os.Args[1] {
	case "run":
		cmdRun(os.Args[2:])
	case "replay":
		cmdReplay(os.Args[2:])
	case "firstop":
		cmdFirstOp()
	default:
		fmt.Fprintln(os.Stderr, "unknown command", os.Args[1])
		os.Exit(2)
	}
}

func cmdRun(args []string) {
	fs := flag.NewFlagSet("run", flag.ExitOnError)
	var a runArgs
	fs.StringVar(&a.Engine, "engine", "", "")
	fs.StringVar(&a.Property, "prop", "", "")
	fs.StringVar(&a.Tier, "tier", "quick", "")
	fs.Uint64Var(&a.Seed, "seed", 1, "")
	fs.IntVar(&a.Shard, "shard", 0, "")
	fs.IntVar(&a.NShards, "nshards", 1, "")
	fs.IntVar(&a.N, "n", 100, "")
	fs.Float64Var(&a.MaxSecs, "maxsecs", 60, "")
	fs.StringVar(&a.Out, "out", "", "")
	fs.StringVar(&a.Known, "known", "", "")
	fs.BoolVar(&a.Race, "race", false, "")
	fs.StringVar(&a.RepoRoot, "repo", "/repo", "")
	trace := fs.Bool("trace", false, "")
	_ = fs.Parse(args)
	loadKnown(a.Known)
	raceMode = a.Race
	fixtureRoot = a.RepoRoot
	start := time.Now()
	b := newBatch(a.Engine, a.Property, a.Seed, a.Shard)
	b.trace = *trace
	b.pos = &BatchPos{Tier: a.Tier, Shard: a.Shard, NShards: a.NShards, N: a.N, Race: a.Race, WeakHash: simrt.WeakHashBits()}
	deadline := start.Add(time.Duration(a.MaxSecs * float64(time.Second)))
	for run := a.Shard; run < a.N; run += a.NShards {
		if time.Now().After(deadline) {
			b.TimedOut = true
			break
		}
		fmt.Fprintf(os.Stderr, "begin %d\n", run)
		b.beginRun(uint64(run))
		t0 := time.Now()
		runOne(b, &a, uint64(run))
		b.endRun()
		if d := time.Since(t0).Seconds(); d > b.Extra["max_wall_s_of_one_workload"] {
			if b.Extra == nil {
				b.Extra = map[string]float64{}
			}
			b.Extra["max_wall_s_of_one_workload"] = d
			b.Extra["max_wall_workload_index"] = float64(run)
		}
	}
	b.WallS = time.Since(start).Seconds()
	b.finish()
	if err := writeJSON(a.Out, b); err != nil {
		fmt.Fprintln(os.Stderr, "worker:", err)
		os.Exit(2)
	}
}

func runOne(b *BatchResult, a *runArgs, run uint64) {
	switch a.Engine {
	case "wgsim":
		p := wgParams{nRandom: 4}
		if a.Tier == "thorough" {
			p = wgParams{nRandom: 48, tinyPerms: true}
		}
		wgRunOne(b, a.Property, a.Seed, run, p)
	case "rendersim":
		n := 6
		if a.Tier == "thorough" {
			n = 40
		}
		renderRunOne(b, a.Property, a.Seed, run, n)
	case "puresim":
		every := uint64(5) // real process restarts (two fresh processes each)
		if a.Tier == "thorough" {
			every = 3
		}
		pureRunOne(b, a.Property, a.Seed, run, a.Race, every)
	case "mergesim":
		n := 6
		if a.Tier == "thorough" {
			n = 40
		}
		mergeRunOne(b, a.Property, a.Seed, run, n)
	case "plainsim":
		n := 6
		if a.Tier == "thorough" {
			n = 40
		}
		plainRunOne(b, a.Property, a.Seed, run, n)
	default:
		fmt.Fprintln(os.Stderr, "worker: unknown engine", a.Engine)
		os.Exit(2)
	}
}

// ---------------------------------------------------------------------------
// replay

type replayResult struct {
	Reproduced  bool     `json:"reproduced"`
	ViaBatch    bool     `json:"via_batch,omitempty"`
	Class       string   `json:"class"`
	Detail      string   `json:"detail"`
	Fingerprint string   `json:"fingerprint"`
	AllClasses  []string `json:"all_classes"`
	Known       string   `json:"known,omitempty"`
}

func cmdReplay(args []string) {
	fs := flag.NewFlagSet("replay", flag.ExitOnError)
	file := fs.String("file", "", "")
	out := fs.String("out", "", "")
	known := fs.String("known", "", "")
	minimise := fs.Bool("minimise", false, "")
	_ = fs.Parse(args)
	loadKnown(*known)
	data, err := os.ReadFile(*file)
	if err != nil {
		fmt.Fprintln(os.Stderr, "worker:", err)
		os.Exit(2)
	}
	var v Violation
	if err := json.Unmarshal(data, &v); err != nil {
		fmt.Fprintln(os.Stderr, "worker:", err)
		os.Exit(2)
	}
	raceMode = v.RaceReport != ""
	if v.Batch != nil {
		// the weak-hash mode of the worker process that saw the violation
		simrt.SetWeakHash(v.Batch.WeakHash)
	}
	if *minimise {
		mv := minimiseViolation(&v)
		if err := writeJSON(*out, mv); err != nil {
			fmt.Fprintln(os.Stderr, "worker:", err)
			os.Exit(2)
		}
		return
	}
	var res *replayResult
	if v.Batch != nil && v.BatchHistory {
		// the process must be as fresh as the batch's worker was: nothing may
		// run before the prefix
		res = replayBatchPrefix(&v)
	} else {
		res = replayViolation(&v)
	}
	if err := writeJSON(*out, res); err != nil {
		fmt.Fprintln(os.Stderr, "worker:", err)
		os.Exit(2)
	}
}

// replayOnce re-executes a violation's workload and schedule and returns the
// mismatches of its property.
func replayOnce(v *Violation) ([]mismatch, string) {
	c := ctxFor(v.Engine, v.Workload)
	cfg := v.Sched
	if len(cfg.Tape) > 0 || v.SchedName != "cold-process-random" {
		cfg.Generative = false
	}
	mm, st, _ := c.check(cfg)
	var out []mismatch
	for _, x := range mm {
		if x.prop == v.Property {
			out = append(out, x)
		}
	}
	return out, fpString(st.Fingerprint)
}

func replayViolation(v *Violation) *replayResult {
	off := raceLogSize()
	mm, fp := replayOnce(v)
	res := &replayResult{Fingerprint: fp}
	if v.RaceReport != "" {
		// a race violation reproduces iff the race detector reports again
		// (fresh process: reports are deduplicated per process)
		rep := raceLogSince(off)
		if strings.Contains(rep, "DATA RACE") {
			res.Reproduced = true
			res.Class = v.Class
			res.Detail = firstRaceFrames(rep)
		}
		return res
	}
	for _, x := range mm {
		res.AllClasses = append(res.AllClasses, x.class)
		if x.class == v.Class && !res.Reproduced {
			res.Reproduced = true
			res.Class = x.class
			res.Detail = x.detail
		}
	}
	return res
}

// replayBatchPrefix re-executes the violation's shard from its first run up to
// and including the violating run, in this (fresh) process, exactly as the
// batch did, and looks for the same violation class in that run.
func replayBatchPrefix(v *Violation) *replayResult {
	a := &runArgs{Engine: v.Engine, Property: v.Property, Tier: v.Batch.Tier, Seed: v.Seed, Shard: v.Batch.Shard, NShards: v.Batch.NShards, N: v.Batch.N, Race: v.Batch.Race}
	b := newBatch(a.Engine, a.Property, a.Seed, a.Shard)
	b.pos = v.Batch
	b.onlyRun = int64(v.Run)
	off := raceLogSize()
	for run := a.Shard; run <= int(v.Run); run += a.NShards {
		if run == int(v.Run) {
			off = raceLogSize()
		}
		b.beginRun(uint64(run))
		runOne(b, a, uint64(run))
	}
	res := &replayResult{ViaBatch: true}
	for _, x := range b.Violations {
		res.AllClasses = append(res.AllClasses, x.Class)
		if x.Class == v.Class && !res.Reproduced {
			res.Reproduced = true
			res.Class = x.Class
			res.Detail = x.Detail
			res.Fingerprint = x.Fingerprint
		}
	}
	_ = off
	return res
}
