#!/bin/bash
# MANIFEST.setup_cmd: build the instrumenter and the driver from /verif sources
# only (offline), warm the Go build cache (plain and race worker), and run the
# repository's own suite inside the instrumented scratch copy (pass-through
# mode) as a self-check of the instrumentation.
set -e
cd "$(dirname "$0")"
export GOFLAGS=-mod=mod GOPROXY=off GOSUMDB=off GOTOOLCHAIN=local CGO_ENABLED=1
mkdir -p bin evidence replays
( cd simrt && [ -f go.sum ] || cp /repo/pkg/go/go.sum go.sum )
( cd tools && go build -o ../bin/instrument ./instrument && go build -o ../bin/driver ./driver )
# self-tests of the simulator's own primitives (cooperative channels; discrete-event
# clock, timers, sync.Cond, simulated pool, tape-ordered select): seeded schedules,
# each executed twice, outcomes and fingerprints must agree
( cd simrt && GOMAXPROCS=1 go run ./internal/chanselftest && GOMAXPROCS=1 go run ./internal/timeselftest )
./bin/driver selftest
